//! Adapters onto the aggregation traits, generic over the iterator source.
//! Only this module (and sut / sut_map) imports the tevec prelude.

use tevec::prelude::*;

pub fn count_valid<I: IntoIterator<Item = T>, T: IsNone>(it: I) -> usize {
    it.count_valid()
}
pub fn count_none<I: IntoIterator<Item = T>, T: IsNone>(it: I) -> usize {
    it.count_none()
}
pub fn vcount_value<I: IntoIterator<Item = T>, T: IsNone>(it: I, v: T) -> usize
where
    T::Inner: PartialEq,
{
    it.vcount_value(v)
}
pub fn count_value<I: IntoIterator<Item = T>, T: PartialEq>(it: I, v: T) -> usize {
    AggBasic::count_value(it, v)
}
pub fn vfirst<I: IntoIterator<Item = T>, T: IsNone>(it: I) -> Option<T> {
    it.vfirst()
}
pub fn vlast<I: IntoIterator<Item = T>, T: IsNone>(it: I) -> Option<T>
where
    I::IntoIter: DoubleEndedIterator,
{
    it.vlast()
}
pub fn first<I: IntoIterator<Item = T>, T>(it: I) -> Option<T> {
    AggBasic::first(it)
}
pub fn last<I: IntoIterator<Item = T>, T>(it: I) -> Option<T>
where
    I::IntoIter: DoubleEndedIterator,
{
    AggBasic::last(it)
}
pub fn any<I: IntoIterator<Item = bool>>(it: I) -> bool {
    AggBasic::any(it)
}
pub fn all<I: IntoIterator<Item = bool>>(it: I) -> bool {
    AggBasic::all(it)
}
pub fn vany<I: IntoIterator<Item = T>, T: IsNone>(it: I) -> bool
where
    T::Inner: BoolType,
{
    it.vany()
}
pub fn vall<I: IntoIterator<Item = T>, T: IsNone>(it: I) -> bool
where
    T::Inner: BoolType,
{
    it.vall()
}
pub fn sum<I: IntoIterator<Item = T>, T: Zero>(it: I) -> Option<T> {
    AggBasic::sum(it)
}
pub fn n_sum<I: IntoIterator<Item = T>, T: Zero>(it: I) -> (usize, Option<T>) {
    AggBasic::n_sum(it)
}
pub fn mean<I: IntoIterator<Item = T>, T: Zero + Cast<f64>>(it: I) -> Option<f64> {
    AggBasic::mean(it)
}
pub fn max<I: IntoIterator<Item = T>, T: Number>(it: I) -> Option<T> {
    AggBasic::max(it)
}
pub fn min<I: IntoIterator<Item = T>, T: Number>(it: I) -> Option<T> {
    AggBasic::min(it)
}
pub fn argmax<I: IntoIterator<Item = T>, T: PartialOrd>(it: I) -> Option<usize> {
    AggBasic::argmax(it)
}
pub fn argmin<I: IntoIterator<Item = T>, T: PartialOrd>(it: I) -> Option<usize> {
    AggBasic::argmin(it)
}
pub fn vsum<I: IntoIterator<Item = T>, T: IsNone>(it: I) -> Option<T::Inner>
where
    T::Inner: Zero,
{
    it.vsum()
}
pub fn vmean<I: IntoIterator<Item = T>, T: IsNone>(it: I) -> f64
where
    T::Inner: Number,
{
    it.vmean()
}
pub fn vmean_var<I: IntoIterator<Item = T>, T: IsNone>(it: I, mp: usize) -> (f64, f64)
where
    T::Inner: Number,
{
    it.vmean_var(mp)
}
pub fn vvar<I: IntoIterator<Item = T>, T: IsNone>(it: I, mp: usize) -> f64
where
    T::Inner: Number,
{
    it.vvar(mp)
}
pub fn vstd<I: IntoIterator<Item = T>, T: IsNone>(it: I, mp: usize) -> f64
where
    T::Inner: Number,
{
    it.vstd(mp)
}
pub fn vskew<I: IntoIterator<Item = T>, T: IsNone>(it: I, mp: usize) -> f64
where
    T::Inner: Number,
{
    it.vskew(mp)
}
pub fn vkurt<I: IntoIterator<Item = T>, T: IsNone>(it: I, mp: usize) -> f64
where
    T::Inner: Number,
{
    it.vkurt(mp)
}
pub fn vmax<I: IntoIterator<Item = T>, T: IsNone>(it: I) -> Option<T::Inner>
where
    T::Inner: Number,
{
    it.vmax()
}
pub fn vmin<I: IntoIterator<Item = T>, T: IsNone>(it: I) -> Option<T::Inner>
where
    T::Inner: Number,
{
    it.vmin()
}
pub fn vargmax<I: IntoIterator<Item = T>, T: IsNone>(it: I) -> Option<usize>
where
    T::Inner: PartialOrd,
{
    it.vargmax()
}
pub fn vargmin<I: IntoIterator<Item = T>, T: IsNone>(it: I) -> Option<usize>
where
    T::Inner: PartialOrd,
{
    it.vargmin()
}
pub fn n_vsum_filter<I, T, M, U>(it: I, mask: M) -> (usize, T::Inner)
where
    I: IntoIterator<Item = T>,
    T: IsNone,
    T::Inner: Number,
    M: IntoIterator<Item = U>,
    U: IsNone,
    U::Inner: Cast<bool>,
{
    it.n_vsum_filter(mask)
}
pub fn n_sum_filter<I, T, M, U>(it: I, mask: M) -> Option<T::Inner>
where
    I: IntoIterator<Item = T>,
    T: IsNone,
    T::Inner: Number,
    M: IntoIterator<Item = U>,
    U: IsNone,
    U::Inner: Cast<bool>,
{
    it.n_sum_filter(mask)
}
pub fn vmean_filter<I, T, M, U>(it: I, mask: M, mp: usize) -> f64
where
    I: IntoIterator<Item = T>,
    T: IsNone,
    T::Inner: Number,
    M: IntoIterator<Item = U>,
    U: IsNone,
    U::Inner: Cast<bool>,
{
    it.vmean_filter(mask, mp)
}
pub fn vcov<I, T, I2, T2>(a: I, b: I2, mp: usize) -> T::Cast<f64>
where
    I: IntoIterator<Item = T>,
    T: IsNone,
    T::Inner: Number,
    I2: IntoIterator<Item = T2>,
    T2: IsNone,
    T2::Inner: Number,
{
    a.vcov(b, mp)
}
pub fn vcorr_pearson<I, T, I2, T2>(a: I, b: I2, mp: usize) -> f64
where
    I: IntoIterator<Item = T>,
    T: IsNone,
    T::Inner: Number,
    I2: IntoIterator<Item = T2>,
    T2: IsNone,
    T2::Inner: Number,
{
    a.vcorr_pearson::<f64, _, _>(b, mp)
}
