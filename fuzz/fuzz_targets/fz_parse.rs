#![no_main]
use libfuzzer_sys::fuzz_target;

fuzz_target!(|data: &[u8]| {
    let _ = tvh::hello_fuzz(data);
});
