#![no_main]
use libfuzzer_sys::fuzz_target;
use tvh::fuzzable::{all_parsers, decode_parse};

// C18: no parser may panic on any string (a panic aborts the process = crash artefact)
fuzz_target!(|data: &[u8]| {
    let s = decode_parse(data);
    let _ = all_parsers(&s);
});
