#![no_main]
use libfuzzer_sys::fuzz_target;
use tvh::engine::Obs;
use tvh::fuzzable::{check_kernel, decode_kernel, fuzz_assert};

// C10: the kernels on the real Vec / wrapped VecDeque / strided ndarray view under ASan
fuzz_target!(|data: &[u8]| {
    let k = decode_kernel(data);
    let mut obs = Obs::default();
    fuzz_assert(check_kernel(&k, &mut obs));
});
