#![no_main]
use libfuzzer_sys::fuzz_target;
use tvh::engine::Obs;
use tvh::fuzzable::{check_pipeline, decode_pipeline, fuzz_assert};

// C09: pipeline programs; hint law after every partial consumption, trusted collectors under ASan
fuzz_target!(|data: &[u8]| {
    let c = decode_pipeline(data);
    let mut obs = Obs::default();
    fuzz_assert(check_pipeline(&c, &mut obs));
});
