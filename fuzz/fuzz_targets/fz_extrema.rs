#![no_main]
use libfuzzer_sys::fuzz_target;
use tvh::engine::Obs;
use tvh::fuzzable::{decode_extrema, fuzz_assert};
use tvh::rollcheck::check1;

// C03: coverage-guided search of the extrema / rank state machine against the exact model
fuzz_target!(|data: &[u8]| {
    let (c, st) = decode_extrema(data);
    let mut obs = Obs::default();
    fuzz_assert(check1(&c, st, true, &mut obs));
});
