#!/usr/bin/env python3
"""pack_seed.py <ID> <A|B> <slug> <needs-text>: stores a confirmed seeded change under /verif/seeded/"""
import sys, json, os, shutil
pid, x, slug, needs = sys.argv[1:5]
rnd = os.environ.get("ROUND", "")
src = f"/tmp/out{rnd}-{pid}"
dst = f"/verif/seeded/{pid}-{x}{rnd}-{slug}"
os.makedirs(dst, exist_ok=True)
shutil.copy(f"{src}/{x}.patch", f"{dst}/patch.diff")
shutil.copy(f"{src}/{x}_demo.rs", f"{dst}/demo.rs")
shutil.copy(f"{src}/{x}.md", f"{dst}/notes.md")
confirm = open(f"{src}/{x}.confirm").read().strip()
head = os.popen("git -C /repo rev-parse --short HEAD").read().strip()
meta = {
    "property": pid,
    "breaks": open(f"/tmp/prop-{pid}.txt").read().split("\n")[0],
    "needs_to_manifest": needs,
    "base_commit": head,
    "origin": "written by an independent sub-agent that saw only the property text and its own scratch worktree",
    "confirmed_by_me": {
        "how": (("ROUND=" + rnd + " ") if rnd else "") + f"tools/confirm_seed.sh {pid} {x}: in the scratch worktree, applied patch.diff, ran `cargo test --workspace --no-fail-fast --offline`, ran demo.rs as tevec/tests/seed_demo.rs with and without the change",
        "result": confirm,
    },
    "detected_by": [],
}
json.dump(meta, open(f"{dst}/meta.json", "w"), indent=1)
print(dst)
