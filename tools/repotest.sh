#!/bin/bash
# Runs the repository's pinned test suite (guard off) and prints pass/fail totals.
cd /repo || exit 2
out=$(CARGO_NET_OFFLINE=true cargo test --workspace --no-fail-fast --offline 2>&1)
rc=$?
echo "$out" | grep -E "^test result" | awk '{p+=$4; f+=$6} END {print "passed=" p " failed=" f}'
echo "$out" | grep -E "^test .* FAILED|^error" | head -20
exit $rc
