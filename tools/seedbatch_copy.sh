#!/bin/bash
# Runs every seeded change against every quick check in a scratch copy of /repo and of the harness
# (so that /repo and /verif stay usable meanwhile). Usage: [RCOPY=dir VCOPY=dir] seedbatch_copy.sh <outfile> [seed-dir ...]
out="$1"; shift
R=${RCOPY:-/tmp/rcopy}; V=${VCOPY:-/tmp/vcopy}
rm -rf $V; git -C /repo worktree remove --force $R 2>/dev/null; git -C /repo worktree prune
git -C /repo worktree add -q --detach $R HEAD || exit 2
mkdir -p $V && rsync -a --exclude target /verif/harness /verif/replays /verif/known_findings.jsonl $V/ 
sed -i "s#/repo/tevec#$R/tevec#" $V/harness/Cargo.toml
sed -i "s#/verif/target#$V/target#" $V/harness/.cargo/config.toml
export VERIF_ROOT=$V CARGO_NET_OFFLINE=true
seeds="$@"; [ -z "$seeds" ] && seeds=$(ls -d /verif/seeded/*/)
: > "$out"
for d in $seeds; do
  name=$(basename $d)
  git -C $R checkout -q -- . 
  if ! git -C $R apply $d/patch.diff 2>/dev/null; then echo "$name APPLY-FAILED" >> "$out"; continue; fi
  (cd $V/harness && cargo build --bins > $V/build.log 2>&1) || { echo "$name BUILD-FAILED" >> "$out"; continue; }
  caught=""
  for b in c01 c02 c03 c04 c05 c06 c07 c08 c09 c10 c11 c12 c13 c14 c15 c16 c17 c18 c19 c20; do
    o=$($V/target/debug/$b quick 2>/dev/null); rc=$?
    if [ $rc -eq 1 ]; then
      sig=$(echo "$o" | grep -E "^    .* -- " | head -1 | sed 's/ -- .*//' | tr -s ' ' | cut -c1-90)
      caught="$caught ${b^^}[$sig]"
    elif [ $rc -ne 0 ]; then caught="$caught ${b^^}[rc=$rc]"; fi
  done
  echo "$name :: ${caught:- MISSED}" >> "$out"
  rm -rf $V/failures
done
git -C $R checkout -q -- .
echo FINISHED >> "$out"
