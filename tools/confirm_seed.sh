#!/bin/bash
# usage: [ROUND=2] confirm_seed.sh <ID> <A|B> [features]
# Re-confirms a seeded change in its scratch worktree /tmp/wt-<ID>: (1) existing suite passes with the
# change, (2) the demo fails with it, (3) the demo passes without it. Writes /tmp/out-<ID>/<X>.confirm
id="$1"; x="$2"; feats="${3:-}"
r="${ROUND:-}"; wt=${WT:-/tmp/wt$r-$id}; out=/tmp/out$r-$id
cd $wt || exit 2
git checkout -q -- . ; rm -rf tevec/tests
git apply $out/$x.patch || { echo "apply failed" > $out/$x.confirm; exit 1; }
suite=$(cargo test --workspace --no-fail-fast --offline 2>&1 | grep -E "^test result" | awk '{p+=$4; f+=$6} END {print "passed=" p " failed=" f}')
mkdir -p tevec/tests; cp $out/${x}_demo.rs tevec/tests/seed_demo.rs
with=$(cargo test -p tevec --test seed_demo --offline $feats 2>&1 | grep -E "^test result" | tail -1)
git checkout -q -- .
without=$(cargo test -p tevec --test seed_demo --offline $feats 2>&1 | grep -E "^test result" | tail -1)
rm -rf tevec/tests
echo "suite_with_change: $suite | demo_with_change: $with | demo_without_change: $without" > $out/$x.confirm
cat $out/$x.confirm
