#!/bin/bash
# usage: seedtest.sh <patch.diff> <tier> <ID> [<ID>...]
# Applies a seeded change to /repo, runs the given checks, restores /repo. Prints one line per check.
patch="$1"; tier="$2"; shift 2
cd /repo || exit 2
if [ -n "$(git status --porcelain)" ]; then echo "/repo not clean"; exit 2; fi
if ! git apply "$patch"; then echo "patch does not apply"; exit 2; fi
for id in "$@"; do
    out=$(cd /verif && VERIF_SEED=${VERIF_SEED:-0} ./check "$id" "$tier" 2>&1)
    rc=$?
    nv=$(echo "$out" | grep -c "^VIOLATION")
    first=$(echo "$out" | grep -E "^    .* -- " | head -2 | cut -c1-220 | tr '\n' '|')
    echo "$id rc=$rc violations=$nv :: $first"
done
git -C /repo checkout -- .
rm -rf /verif/failures
# the binaries under /verif/target were built from the patched tree: rebuild them from the restored one so
# that nobody runs a stale binary directly (./check itself always rebuilds)
(cd /verif/harness && cargo build --bins > /dev/null 2>&1)
