#!/usr/bin/env python3
"""Regenerates /verif/MANIFEST.json from the table below (keeps it valid at all times)."""
import json, os, sys

IMPLEMENTED = sys.argv[1:] if len(sys.argv) > 1 else None

P = {
 "C01": dict(
  technique="property-based testing (proptest): generated series x window x min_periods x element/output types vs from-scratch reference model, long-history drift runs, shrinking to replay files",
  text="Generated-input search: every position of every generated series is compared with an independent from-scratch evaluation of its window (two-pass moments, explicit weights), for 18 entry points, 6 input and 5 output element types, returned and out-buffer paths, plus 2k-20k element histories. Shows agreement on everything generated, not absence of defects.",
  note="Oracle tolerance is the condition-aware bound of DESIGN 5.9 (defects below ~1e3 x measured rounding error are invisible); Vec backend only (other backends are C07); finite inputs; plain family on null-free data. Sub-properties integer_edges:* run sum / mean / std / wma on i32 series containing the type minimum or maximum and on u64 / usize series (every window sum representable). Sub-properties price:* use tick data at a price level (level / spread 1e3..1e7, level jumps); huge_window:* use 30 000-70 000 element series with windows holding most of the series, compared at ~34 positions.",
  ref="6 C01, 5.1, 5.6, 5.9"),
 "C02": dict(
  technique="model-based property testing: recording stateful callback vs explicit call-sequence model, exhaustive small scope (len<=12, all windows) plus random larger cases over all backends",
  text="Every driver entry point is run with a recording, stateful callback on every backend and output path; the recorded call sequence, arguments, slices and output placement are compared with an explicit model. Exhaustive for len 0..=12 x w 1..=len+3; random beyond.",
  note="Polars cells limited to documented-supported paths (DESIGN 5.7); the removed argument at the single unspecified position is not compared. Sub out_view_placement (enumerated) writes through strided / reversed ndarray out views inside a padded sentinel buffer and checks placement and that nothing else is written (eight drivers: the index-writing ones and the two that fill the buffer through the iterator writer, rolling2_custom and rolling_custom on a VecDeque input); sub deque_out_buffer_and_longer_second_series writes into physically wrapped VecDeque out buffers and passes a second series longer than the first; the small scope also contains the two expanding windows usize::MAX and 2^63. The subs that touch real containers run first in a child process (engine canary): a child killed by a signal is a reported violation. The longer second series is also passed to an ndarray first series (owned / strided view) on the returned path.",
  ref="6 C02"),
 "C03": dict(
  technique="property-based testing (proptest) with tie-heavy / monotone-run generators vs exact per-window reference, plus coverage-guided fuzzing (libFuzzer) of the extrema state machine in the thorough tier",
  text="Generated tie-heavy, monotone-run and plateau series with null blocks; every position compared exactly (tolerance 0) with the per-window definition for min/max/arg/rank, 4 ulp for minmaxnorm and DESIGN 5.9 for zscore. Non-trivial cases are those where the cached extreme expired and ties exist.",
  note="Omitted min_periods of the extrema family asserted for len >= w only (5.3); integer output not requested for ts_vmin/ts_vmax (5.7). Value classes include adjacent floats (spreads of a few ulps) and, in the wide_integers sub-properties, i64 series beyond 2^53 whose order statistics must stay exact. Thorough tier adds 8 libFuzzer campaigns (target fz_extrema, ASan) with the same oracle.",
  ref="6 C03, 5.3"),
 "C04": dict(
  technique="property-based testing (proptest): generated pairs with independent null patterns incl. collinear / constant windows vs per-window least squares computed with centred two-pass sums",
  text="Each of the 2 binary, 7(+triple) regression-on-x and 5 trend statistics is compared at every position with least squares from scratch on the pairwise-complete observations; perfect linear windows must have (numerically) zero residual; long histories check drift.",
  note="Tolerance DESIGN 5.9 with the formula's own terms; windows with a numerically constant regressor are not compared; f64 data for the two-series family.",
  ref="6 C04, 5.6, 5.9"),
 "C05": dict(
  technique="property-based testing (proptest): boolean null-mask law and length law over all rolling entry points x backends x lengths incl. 0 and len<w",
  text="For every rolling entry point the output length must equal the input length and the null mask must follow from the counted valid observations, min_periods (explicit or omitted) and the intrinsic minimum; data classes make 'defined' decidable exactly.",
  note="Extrema family with omitted min_periods only for len >= w (5.3); integer outputs only checked in the null direction. The two-series law is also run on Option element types (a null Option in a window must not panic). type_extreme_windows:* feed windows 2^31 .. usize::MAX (omitted and explicit min_periods) to every single-series entry point; the EWM is not asserted above w = 2^40 (alpha = 2/w below f64 resolution, DESIGN 5.2).",
  ref="6 C05, 5.3, 5.6"),
 "C06": dict(
  technique="metamorphic property testing (proptest): prefix relation (bit-for-bit) over every cut, and pre-window-history replacement relation within the 5.9 bound (exact for extrema/rank)",
  text="Two metamorphic relations over generated inputs: f(x[..c]) == f(x)[..c] bitwise for every cut c and every rolling / lagging entry point; replacing the pre-window history by other bounded finite values changes results by at most the rounding bound (exactly nothing for min/max/arg/rank).",
  note="Histories bounded per DESIGN 5.2; tolerance 5.9 evaluated with the magnitude of both histories. Half of the float cases carry signed zeros, so the bit pattern reported by min / max must not depend on the history either. The history relation also runs on tick data at a price level (value class price_ticks).",
  ref="6 C06, 5.2"),
 "C07": dict(
  technique="differential property testing (proptest + exhaustive small scope): same logical sequence materialised in every backend / rotation / stride / chunking, results compared bitwise with the Vec reference; accessor coherence model",
  text="Differential testing across the backend x output container x out-path matrix: every cell must be bit-identical to the Vec->Vec returned reference; accessor coherence (get/iter/rev/slice/try_as_slice/len) is enumerated exhaustively for small sequences.",
  note="Cells documented as unsupported (Polars uset, DESIGN 5.7) are not generated. The Polars cells (numeric chunked arrays with 1..3 chunks as input and as output container, string and Datetime columns, NaN payloads in valid slots as a pure differential against Vec<Option<f64>>) run in the companion binary c07pl, which the THOROUGH tier builds and runs (linking polars takes minutes; VERIF_POLARS=1 adds it to the quick tier); the quick tier covers all non-Polars backends.",
  ref="6 C07, 5.7"),
 "C08": dict(
  technique="metamorphic property testing (proptest): NaN-encoding vs None-encoding of the same logical series, and null-insertion transparency",
  text="Two metamorphic relations: re-encoding nulls (NaN <-> None) or the output type changes nothing but the encoding; inserting nulls at generated positions leaves every null-aware aggregation / order statistic bitwise unchanged (index results mapped through the insertion map).",
  note="Some(NaN) is not generated (DESIGN 5.4); a NaN with the sign bit set (0.0/0.0 on x86-64) is a null like any other NaN and is one of the generated encodings. Relation 1 covers single-series rolling, two-series rolling (all four NaN / None input combinations, integer inputs) and mapping / aggregation.",
  ref="6 C08, 5.4"),
 "C09": dict(
  technique="stateful property testing (proptest): generated adaptor pipelines (Vec<Op> programs) and consumption scripts; safe item count vs size_hint at every consumption point; libFuzzer+ASan pipeline fuzzing in the thorough tier",
  text="For every trusted-length adaptor and random pipelines of depth 1..6, after every prefix of a consumption script the upper size hint must equal the number of items actually obtainable by safe iteration; only then are the trusted collectors run and their length/content compared.",
  note="Oracle never trusts the hint (counts with a cap); collectors only run when the hint was verified, so a violation cannot corrupt the harness. Generators with non-dyadic float steps are collected through an instrumented container that compares what a trusted source announced with what it yielded; to_trust wrappers are consumed from both ends. Thorough tier adds 8 libFuzzer campaigns (fz_iter: byte-decoded pipeline programs, collectors under ASan), a Miri tier, and the Polars companion binary restricted to its accessor sub-property (remaining-length law of the Polars container iterators; also with VERIF_POLARS=1 in the quick tier).",
  ref="6 C09"),
 "C10": dict(
  technique="property-based testing with instrumented containers (access-log / write-log monitors) implementing the public backend traits; libFuzzer+ASan on the real containers in the thorough tier",
  text="All rolling, rank, partition and quantile kernels run against an instrumented input view (logs every unchecked access) and an instrumented output buffer (logs every write); outcome must be a completed call with a clean log and every slot written exactly once, or a clean panic before any bad access.",
  note="Instrumented containers re-use the library's own default driver bodies; sub real_containers runs the kernels on the real Vec / wrapped VecDeque / strided ndarray view against the model, sub real_out_buffers (canary: first in a child process) writes into wrapped VecDeque and strided / reversed ndarray out buffers of the real containers, and the thorough tier repeats the kernels under ASan with libFuzzer (fz_kernel). two_series_kernels also drives the iterator (returned) path of the default two-series drivers (option view and VecDeque first series, shorter / longer second series) into the instrumented container, which compares the announced length with the yield, and runs rolling2_custom a second time with a caller buffer of the wrong length (len-2..len+5; class wrong_length_caller_buffer): clean panic or fully written buffer.",
  ref="6 C10"),
 "C11": dict(
  technique="property-based testing (proptest): textbook reference definitions on the non-null elements, null law, permutation invariance (metamorphic)",
  text="Each aggregation is compared with its definition on the non-null elements (pairwise-complete for two series), is null exactly below the required count, and the symmetric ones are invariant under a generated permutation.",
  note="Plain AggBasic on null-free data (5.1); tolerance 5.9 with H=0; EPS floor band per 5.6. Series of 65..=400 elements in both tiers (long:* subs); infinite elements for extrema / positions / counts only; integer series up to +-2.1e9 for every aggregation with a float result (element-typed sums are outside, DESIGN 5.2); one-signed infinities in sums / means, and 'moments of a series with an infinite element are not finite'; sources include a filtered iterator whose size hint is only an upper bound.",
  ref="6 C11"),
 "C12": dict(
  technique="property-based testing (proptest): sort-based order-statistic reference and validity predicates for partitions",
  text="Quantiles, percentile-of-score, ranks compared with a sort-based reference; partitions checked by a validity predicate (exact length k+1, multiset of the k+1 smallest/largest valid values, padding only at the end, sortedness when asked).",
  note="Sub vquantile:infinite_elements (about a third of the valid elements -inf / +inf) compares Lower / Higher with the exact order statistic. (n-1)q within 8 u (n-1) of an integer accepts either neighbour (DESIGN 5.5; grid points nudged by 1e-13 / 1e-11 must be treated as off-grid). Partitions also run on non-nullable integer element types whenever k+1 <= len (no padding exists for them, 5.7); sub wide_integers shifts integer series beyond 2^53 (i64 / Option<i64>): ranks and partitions must be those of the offsets. For q = a/2^k without nudge the index is exact and only s[r] itself is accepted (q = 0 minimum, q = 1 maximum for every method).",
  ref="6 C12, 5.5"),
 "C13": dict(
  technique="property-based testing (proptest): positional reference interpreter for shift/diff/pct_change/fill/clip/abs, algebraic laws (clip idempotence, containment)",
  text="Each mapping operation is compared element by element with a positional interpreter on the logical series for lags in -len-3..=len+3 and i32::MIN/MAX, null/non-null fills, bounds in any order; length preservation and clip laws are asserted.",
  note="pct_change within 2 ulp, everything else exact. A quarter of the float cases of the positional / order operations contain +-inf elements.",
  ref="6 C13"),
 "C14": dict(
  technique="property-based testing (proptest): unique-enclosing-bin model for vcut (values on/around edges and type extremes), run-end model for sorted unique",
  text="vcut results (Ok label / Err per element, Err for mismatching label count) compared with the unique-enclosing-interval model; vsorted_unique(_idx) compared with the run model on generated sorted inputs with null blocks.",
  note="Edges strictly ascending and non-null; label types nullable where a null label is needed (5.7).",
  ref="6 C14"),
 "C15": dict(
  technique="exhaustive boundary-pool enumeration plus property-based testing of cast/null algebra and comparator order axioms",
  text="All (source,target) pairs of the cast table are exercised on per-type boundary pools exhaustively and on random values: null preservation, agreement with `as`, composition through Option, predicate coherence, and preorder axioms on all triples.",
  note="Cells documented as panicking (5.7) excluded; canonical nulls only (5.4). Five enumerated tables: numeric casts, bool / String, time types, the Number conversion helpers, IsNone laws; comparator triples also for signed zeros, infinities and the time types (Time, DateTime<s>, DateTime<ns>, negative raw values).",
  ref="6 C15"),
 "C16": dict(
  technique="differential property testing (proptest) against chrono and an independent civil-calendar implementation; absorbing-NaT law",
  text="Unit conversions compared with floor division and with chrono's timestamp accessors on generated instants over each unit's range (negative, non-divisible, near limits); NaT must be preserved/absorbed by every conversion and operation; calendar fields compared with Hinnant's algorithm.",
  note="Finer-unit conversions whose product overflows are outside the domain (5.8); the last values that still fit (+-(i64::MAX / ratio) and neighbours) are generated explicitly.",
  ref="6 C16, 5.8"),
 "C17": dict(
  technique="property-based testing of algebraic laws (inverse, group, distributive) and independent month arithmetic / floor-to-multiple models",
  text="Inverse laws for date-time +/- duration, group laws for durations, month addition vs independent calendar arithmetic, Time constructors/getters round trips, duration_trunc vs floor-to-multiple and calendar-period start models, on generated operands within range.",
  note="Operands of the inverse / month / truncation laws within 1850..2100 plus bounded durations so that results stay inside the nanosecond range (5.8); the difference law additionally runs over (nearly) the whole range of each unit, i.e. instants up to 584 years apart for nanoseconds.",
  ref="6 C17, 5.8"),
 "C18": dict(
  technique="grammar-based and mutation-based property testing (proptest) plus coverage-guided fuzzing (libFuzzer) of the parsers; format/parse round trip",
  text="Parsers are run on generated arbitrary and near-grammar strings and must return Ok/Err without panicking; well-formed duration strings must parse to the sum of their terms; strftime -> parse round-trips at the unit's resolution.",
  note="Totality is shown for generated strings only; all listed formats round-trip for years 1..=9999 (1678..2261 and the range edges for ns), the default text form also for years -400..=0 and 10000..=20000, nine user formats that spell the time of day without %H; duration strings with huge terms must give the exact sum or an error (wellformed_huge_terms). Thorough tier adds 8 libFuzzer campaigns (fz_parse) on the same parser set.",
  ref="6 C18"),
 "C19": dict(
  technique="property-based testing (proptest): arithmetic-progression model for range/linspace, order/content model for collectors, write-log model for write_trust_iter",
  text="range/linspace/full compared with the arithmetic-progression model over small integer and dyadic float parameters; every collector compared with plain collection incl. first-error semantics; writes into an instrumented buffer must fill every slot once or fail with zero writes.",
  note="Float ranges on dyadic grids so membership is exact; collectors are also fed from sources whose size hint is only an upper bound (filter, flat_map, take_while).",
  ref="6 C19"),
 "C20": dict(
  technique="property-based testing (proptest): clip-to-interval predicate for winsorize, rank+Pearson model and monotone-map metamorphic relation for Spearman, bracket model and termination for half_life",
  text="winsorize checked against independently computed bounds (nulls kept, inside values bit-identical, others on the nearer bound, order preserved); Spearman vs Pearson of average ranks and invariance under exact increasing maps; half_life must return in range without panic and equal the first lag with autocorrelation <= 0.5 for well-shaped series.",
  note="Sub winsorize:level runs the sigma method on small integer offsets at a level of 1e6 / 4e6 (band rel*k*sd + 64 u n max|x|; generic clauses only where rel >= 0.5). Overflow checks on, so a wrapped bracket panics instead of looping; watchdog as backstop. Spearman is also evaluated on Option<i64> series shifted beyond 2^53 (order-only invariance). Sub half_life:small_integer_scope enumerates every series of length 7 over {0..6} (thorough: also lengths 6, 8, 9): an autocorrelation within 1e-9 of 0.5 is decided by the library's own Pearson correlation of the series with its lagged copy.",
  ref="6 C20"),
}

def main():
    implemented = IMPLEMENTED
    if implemented is None:
        implemented = [k for k in sorted(P) if os.path.exists(f"/verif/harness/src/bin/{k.lower()}.rs")]
    checks = []
    for k in sorted(P):
        if k not in implemented:
            continue
        d = P[k]
        checks.append({
            "property_id": k,
            "quick_cmd": f"./check {k} quick",
            "thorough_cmd": f"./check {k} thorough",
            "evidence_file": f"/verif/evidence/{k}.json",
            "replay_cmd_template": f"./check {k} --replay {{path}}",
            "engine": "tvh",
            "level_claimed": {"category": "exploration", "text": d["text"], "design_ref": "DESIGN.md section " + d["ref"]},
            "level_note": d["note"],
            "technique": d["technique"],
        })
    na = [{"property_id": k, "reason": "check not built yet in this session (planned in DESIGN.md section 6; property-based testing applies)"} for k in sorted(P) if k not in implemented]
    m = {
        "version": 1,
        "setup_cmd": "./check --setup",
        "hooks": {
            "guard": "tevec_verif",
            "enable": "no hook is needed: every trait required to plug instrumented containers into the kernels is public (DESIGN.md section 1); checks build /repo as it is",
            "baseline_off_cmd": "cd /repo && cargo test --workspace --no-fail-fast --offline",
            "source_commits": [],
            "add_only": True,
        },
        "engines": [{
            "name": "tvh",
            "path": "/verif/harness",
            "serves_properties": implemented,
            "kind_free_text": "Rust crate: proptest-driven engine (deterministic seeds from VERIF_SEED, panic capture, shrinking, replay files, known-findings list, evidence writer), generators, reference models, thin adapters onto tevec, one binary per property",
        }],
        "checks": checks,
        "not_applicable": na,
        "notes": "All checks decide their property by generated-input search against an explicit oracle (property-based testing / fuzzing). Genuine defects found are repaired in /repo by 'fix:' commits and listed in /verif/known_findings.jsonl; regression inputs live in /verif/replays/<ID>/ and are re-run by every check.",
    }
    json.dump(m, open("/verif/MANIFEST.json", "w"), indent=1)
    print("claimed:", implemented, "not yet:", [x["property_id"] for x in na])

main()
