#!/usr/bin/env python3
"""Reads seeded/results-*.txt, updates each seed's meta.json (detected_by) and prints a markdown table."""
import json, glob, os, re
rows = {}
for f in sorted(glob.glob('/verif/seeded/results-*.txt')):
    for line in open(f):
        if '::' not in line: continue
        name, rest = line.split('::', 1)
        name = name.strip()
        hits = re.findall(r'(C\d\d)\[\s*([^\]]*)\]', rest)
        rows[name] = hits
print("| seeded change | breaks | needs to manifest | quick checks that report it (first signature) |")
print("|---|---|---|---|")
for name in sorted(rows):
    d = f'/verif/seeded/{name}'
    hits = rows[name]
    if os.path.isdir(d):
        m = json.load(open(f'{d}/meta.json'))
        m['detected_by'] = [{'check': h[0], 'tier': 'quick', 'signature': h[1]} for h in hits]
        json.dump(m, open(f'{d}/meta.json', 'w'), indent=1)
        needs = m['needs_to_manifest']
        prop = m['property']
    else:
        needs = ''; prop = ''
    det = '; '.join(f"{h[0]} `{h[1][:60]}`" for h in hits) if hits else '**MISSED**'
    print(f"| {name} | {prop} | {needs} | {det} |")
