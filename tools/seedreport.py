#!/usr/bin/env python3
"""Reads seeded/results-*.txt, updates each seed's meta.json (detected_by) and injects the two
tables of DESIGN.md section 8 between their markers."""
import json, glob, os, re, subprocess
rows = {}
extra = {}
# later result files override earlier ones (re-runs after a check was strengthened); files named
# results-polars*.txt hold runs of the Polars tier (`VERIF_POLARS=1 ./check C07 quick`, also part of
# `./check C07 thorough`) and are merged in
for f in sorted(glob.glob('/verif/seeded/results-*.txt')):
    polars = 'polars' in os.path.basename(f)
    for line in open(f):
        if '::' not in line: continue
        name, rest = line.split('::', 1)
        hits = [(c, sig, 'polars' if polars else 'quick') for c, sig in re.findall(r'(C\d\d)\[\s*([^\]]*)\]', rest)]
        if polars: extra[name.strip()] = hits
        else: rows[name.strip()] = hits
for n, h in extra.items():
    rows[n] = rows.get(n, []) + h

def clean(sig):
    sig = re.sub(r'/rustc/[0-9a-f]+/', '', sig)
    sig = re.sub(r'/tmp/rcopy\d?/', '', sig)
    return sig[:70].replace('|', '/')

seed_lines = ["| seeded change | breaks | needs to manifest | quick checks that report it (first signature of each) |", "|---|---|---|---|"]
missed = []
for name in sorted(n for n in rows if os.path.isdir(f'/verif/seeded/{n}')):
    hits = rows[name]
    m = json.load(open(f'/verif/seeded/{name}/meta.json'))
    m['detected_by'] = [{'check': h[0], 'tier': 'quick' if h[2] == 'quick' else 'thorough (Polars tier; also VERIF_POLARS=1 quick)', 'signature': clean(h[1])} for h in hits]
    json.dump(m, open(f'/verif/seeded/{name}/meta.json', 'w'), indent=1)
    det = '; '.join(f"{h[0]}{' (Polars tier)' if h[2] != 'quick' else ''} `{clean(h[1])}`" for h in hits) if hits else '**MISSED by the quick tier**'
    if not hits: missed.append(name)
    seed_lines.append(f"| {name} | {m['property']} | {m['needs_to_manifest']} | {det} |")
n_seeds = len(seed_lines) - 2
seed_lines.append("")
only_pl = [n for n in rows if os.path.isdir(f'/verif/seeded/{n}') and rows[n] and all(h[2] != 'quick' for h in rows[n])]
seed_lines.append(f"{n_seeds - len(missed) - len(only_pl)} of {n_seeds} seeded changes are reported by at least one quick check" + (f", {len(only_pl)} more (Polars-only changes: {', '.join(sorted(only_pl))}) by the Polars tier that `./check C07 thorough` / `./check C09 thorough` run (also `VERIF_POLARS=1` with the quick tier)" if only_pl else "") + (f"; missed: {', '.join(missed)}." if missed else "."))

rev_lines = ["| reverted commit(s) | what the fix repaired | quick checks that report the regression |", "|---|---|---|"]
rmiss = []
for name in sorted(n for n in rows if n.startswith('revert-')):
    hashes = name[len('revert-'):].split('+')
    subj = ' + '.join(subprocess.run(['git', '-C', '/repo', 'log', '--format=%s', '-1', h], capture_output=True, text=True).stdout.strip().replace('fix: ', '') for h in hashes)
    hits = rows[name]
    det = '; '.join(f"{h[0]}{' (Polars tier)' if h[2] != 'quick' else ''} `{clean(h[1])}`" for h in hits) if hits else '**not reported by the quick tier**'
    if not hits: rmiss.append(name)
    rev_lines.append(f"| {' + '.join(hashes)} | {subj} | {det} |")
n_rev = len(rev_lines) - 2
rev_lines.append("")
rev_pl = [n for n in rows if n.startswith('revert-') and rows[n] and all(h[2] != 'quick' for h in rows[n])]
rev_lines.append(f"{n_rev - len(rmiss) - len(rev_pl)} of {n_rev} reverts are reported by at least one quick check" + (f", {len(rev_pl)} more (the Polars-only repairs {', '.join(sorted(x[len('revert-'):] for x in rev_pl))}) by the Polars tier" if rev_pl else "") + (f"; not reported: {', '.join(rmiss)} (see the notes below the table)." if rmiss else "."))

p = '/verif/DESIGN.md'
s = open(p).read()
def inject(s, tag, lines):
    a = s.index(f'<!-- {tag}-BEGIN -->') + len(f'<!-- {tag}-BEGIN -->')
    b = s.index(f'<!-- {tag}-END -->')
    return s[:a] + '\n' + '\n'.join(lines) + '\n' + s[b:]
s = inject(s, 'SEED-TABLE', seed_lines)
if n_rev: s = inject(s, 'REVERT-TABLE', rev_lines)
open(p, 'w').write(s)
print(f"seeds: {n_seeds} (missed {missed}); reverts: {n_rev} (not reported {rmiss})")
