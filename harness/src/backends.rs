//! Materialise one logical sequence in every (non-Polars) container the library supports and run
//! a generic computation on it. Output containers likewise.

use std::collections::VecDeque;
use std::sync::Arc;

use serde::{Deserialize, Serialize};
use tevec::export::ndarray::{s, Array1};
use tevec::prelude::{TIter, UninitVec, Vec1, Vec1View};

#[derive(Clone, Copy, Debug, PartialEq, Eq, Serialize, Deserialize)]
pub enum Backend {
    Vec,
    /// fixed-size array `[T; N]` (only for len in ARRAY_LENS, else falls back to Vec)
    Array,
    /// VecDeque whose head was advanced by `rot` slots before filling (wraps when rot + len > cap)
    Deque { rot: usize },
    Nd,
    /// borrowed ndarray view with the given step over a padded parent
    NdView { step: isize },
    NdViewMut,
    ArcVec,
    ArcDeque { rot: usize },
    ArcNd,
}

pub const ARRAY_LENS: [usize; 7] = [0, 1, 2, 3, 4, 5, 8];
pub const VIEW_STEPS: [isize; 5] = [1, 2, 3, -1, -2];

impl Backend {
    pub fn label(&self) -> &'static str {
        match self {
            Backend::Vec => "vec",
            Backend::Array => "array",
            Backend::Deque { .. } => "vecdeque",
            Backend::Nd => "ndarray",
            Backend::NdView { step } => match step {
                1 => "ndview+1",
                2 => "ndview+2",
                3 => "ndview+3",
                -1 => "ndview-1",
                _ => "ndview-2",
            },
            Backend::NdViewMut => "ndviewmut",
            Backend::ArcVec => "arc_vec",
            Backend::ArcDeque { .. } => "arc_vecdeque",
            Backend::ArcNd => "arc_ndarray",
        }
    }
    /// does the backend use the iterator-based (lazy) rolling drivers?
    pub fn iterator_driver(&self) -> bool {
        matches!(self, Backend::Deque { .. } | Backend::ArcDeque { .. })
    }
    /// a list that covers every kind once (rotations / steps varied by `k`)
    pub fn all(k: usize) -> Vec<Backend> {
        vec![
            Backend::Vec,
            Backend::Array,
            Backend::Deque { rot: k % 7 },
            Backend::Nd,
            Backend::NdView {
                step: VIEW_STEPS[k % 5],
            },
            Backend::NdViewMut,
            Backend::ArcVec,
            Backend::ArcDeque { rot: (k / 7) % 5 + 1 },
            Backend::ArcNd,
        ]
    }
    pub fn from_sel(sel: u8, k: u8) -> Backend {
        let k = k as usize;
        match sel % 12 {
            0 => Backend::Vec,
            1 => Backend::Array,
            2 | 3 => Backend::Deque { rot: k % 9 },
            4 => Backend::Nd,
            5 | 6 | 7 => Backend::NdView {
                step: VIEW_STEPS[k % 5],
            },
            8 => Backend::NdViewMut,
            9 => Backend::ArcVec,
            10 => Backend::ArcDeque { rot: k % 9 },
            _ => Backend::ArcNd,
        }
    }
}

/// A computation generic over the input view.
pub trait ViewFn<T> {
    type Out;
    fn call<V: Vec1View<T>>(&mut self, v: &V, label: &'static str) -> Self::Out;
}

/// Same, for computations that need the slice type to be iterable (`ts_fdiff` etc.).
pub trait ViewFnS<T> {
    type Out;
    fn call<V: Vec1View<T>>(&mut self, v: &V, label: &'static str) -> Self::Out
    where
        for<'a> V::SliceOutput<'a>: TIter<T>;
}

pub fn make_deque<T: Clone>(data: &[T], rot: usize) -> VecDeque<T> {
    let mut d: VecDeque<T> = VecDeque::with_capacity(data.len().max(1));
    if let Some(first) = data.first() {
        let cap = d.capacity();
        let r = rot % cap.max(1);
        for _ in 0..r {
            d.push_back(first.clone());
        }
        for _ in 0..r {
            d.pop_front();
        }
        for v in data {
            d.push_back(v.clone());
        }
        // the ring must not have been reallocated (that would make it contiguous again)
        debug_assert_eq!(d.capacity(), cap);
    }
    d
}

pub fn deque_wrapped<T>(d: &VecDeque<T>) -> bool {
    !d.as_slices().1.is_empty()
}

/// parent array such that `parent.slice(s![..;step])` is exactly `data`
pub fn strided_parent<T: Clone>(data: &[T], step: isize, filler: T) -> Array1<T> {
    let n = data.len();
    let st = step.unsigned_abs();
    if n == 0 {
        return Array1::from_vec(vec![]);
    }
    let p = (n - 1) * st + 1;
    let mut v = vec![filler; p];
    for (i, x) in data.iter().enumerate() {
        let pos = if step > 0 { i * st } else { (p - 1) - i * st };
        v[pos] = x.clone();
    }
    Array1::from_vec(v)
}

macro_rules! array_arm {
    ($data:expr, $f:expr, $label:expr, $($n:literal),*) => {
        match $data.len() {
            $( $n => {
                let a: [T; $n] = match <[T; $n]>::try_from($data.to_vec()) { Ok(a) => a, Err(_) => unreachable!() };
                $f.call(&a, $label)
            }, )*
            _ => {
                let v = $data.to_vec();
                $f.call(&v, "vec")
            }
        }
    };
}

pub fn with_backend<T: Clone, F: ViewFn<T>>(bk: Backend, data: &[T], filler: T, f: &mut F) -> F::Out {
    let label = bk.label();
    match bk {
        Backend::Vec => {
            let v = data.to_vec();
            f.call(&v, label)
        },
        Backend::Array => array_arm!(data, f, label, 0, 1, 2, 3, 4, 5, 8),
        Backend::Deque { rot } => {
            let d = make_deque(data, rot);
            let l = if deque_wrapped(&d) { "vecdeque_wrapped" } else { "vecdeque" };
            f.call(&d, l)
        },
        Backend::Nd => {
            let a = Array1::from_vec(data.to_vec());
            f.call(&a, label)
        },
        Backend::NdView { step } => {
            let parent = strided_parent(data, step, filler);
            let view = parent.slice(s![..;step]);
            debug_assert_eq!(view.len(), data.len());
            f.call(&view, label)
        },
        Backend::NdViewMut => {
            let mut a = Array1::from_vec(data.to_vec());
            let vm = a.view_mut();
            f.call(&vm, label)
        },
        Backend::ArcVec => {
            let v = Arc::new(data.to_vec());
            f.call(&v, label)
        },
        Backend::ArcDeque { rot } => {
            let d = Arc::new(make_deque(data, rot));
            f.call(&d, label)
        },
        Backend::ArcNd => {
            let a = Arc::new(Array1::from_vec(data.to_vec()));
            f.call(&a, label)
        },
    }
}

/// Only the owned backends whose slice type is iterable (the higher-ranked bound on the slice
/// type forces `V: 'static`, so VecDeque (slice type not iterable) and borrowed ndarray views
/// cannot run these; they return None).
pub fn with_backend_s<T: Clone + 'static, F: ViewFnS<T>>(bk: Backend, data: &[T], _filler: T, f: &mut F) -> Option<F::Out> {
    let label = bk.label();
    Some(match bk {
        Backend::Vec => {
            let v = data.to_vec();
            f.call(&v, label)
        },
        Backend::Array => array_arm!(data, f, label, 0, 1, 2, 3, 4, 5, 8),
        Backend::Deque { .. } | Backend::ArcDeque { .. } | Backend::NdView { .. } | Backend::NdViewMut => return None,
        Backend::Nd => {
            let a = Array1::from_vec(data.to_vec());
            f.call(&a, label)
        },
        Backend::ArcVec => {
            let v = Arc::new(data.to_vec());
            f.call(&v, label)
        },
        Backend::ArcNd => {
            let a = Arc::new(Array1::from_vec(data.to_vec()));
            f.call(&a, label)
        },
    })
}

// ---------------------------------------------------------------------------------------------
// output containers

#[derive(Clone, Copy, Debug, PartialEq, Eq, Serialize, Deserialize)]
pub enum OutKind {
    Vec,
    Deque,
    Nd,
}

impl OutKind {
    pub fn label(&self) -> &'static str {
        match self {
            OutKind::Vec => "out_vec",
            OutKind::Deque => "out_vecdeque",
            OutKind::Nd => "out_ndarray",
        }
    }
    pub const ALL: [OutKind; 3] = [OutKind::Vec, OutKind::Deque, OutKind::Nd];
}

pub trait OutC<U>: Vec1<U> {
    fn into_std_vec(self) -> Vec<U>;
}
impl<U: Clone> OutC<U> for Vec<U> {
    fn into_std_vec(self) -> Vec<U> {
        self
    }
}
impl<U: Clone> OutC<U> for VecDeque<U> {
    fn into_std_vec(self) -> Vec<U> {
        self.into_iter().collect()
    }
}
impl<U: Clone> OutC<U> for Array1<U> {
    fn into_std_vec(self) -> Vec<U> {
        self.to_vec()
    }
}

/// Run `f` either returning a fresh container or writing into a caller-supplied uninitialised
/// buffer of length `len`; the result is converted to a std Vec.
pub fn run_out<O, U, F>(len: usize, out_buf: bool, f: F) -> Result<Vec<U>, String>
where
    O: OutC<U>,
    U: Clone,
    F: for<'a> FnOnce(Option<O::UninitRefMut<'a>>) -> Option<O>,
{
    if out_buf {
        let mut buf = O::uninit(len);
        let r = f(Some(O::uninit_ref_mut(&mut buf)));
        if r.is_some() {
            return Err("out-path: a value was returned although a buffer was supplied".into());
        }
        Ok(unsafe { buf.assume_init() }.into_std_vec())
    } else {
        match f(None) {
            Some(v) => Ok(v.into_std_vec()),
            None => Err("out-path: nothing returned although no buffer was supplied".into()),
        }
    }
}

/// Reduced set of containers for the *second* series of two-series functions (keeps the number
/// of generic instantiations manageable): Vec, VecDeque, strided ndarray view; everything else
/// maps to Vec.
pub fn with_backend_lite<T: Clone, F: ViewFn<T>>(bk: Backend, data: &[T], filler: T, f: &mut F) -> F::Out {
    match bk {
        Backend::Deque { rot } | Backend::ArcDeque { rot } => {
            let d = make_deque(data, rot);
            f.call(&d, "vecdeque")
        },
        Backend::NdView { step } => {
            let parent = strided_parent(data, step, filler);
            let view = parent.slice(s![..;step]);
            f.call(&view, "ndview")
        },
        Backend::Nd | Backend::NdViewMut | Backend::ArcNd => {
            let a = Array1::from_vec(data.to_vec());
            f.call(&a, "ndarray")
        },
        _ => {
            let v = data.to_vec();
            f.call(&v, "vec")
        },
    }
}
