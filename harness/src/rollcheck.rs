//! Evaluation of rolling entry points on the plain `Vec` backend for every (input element type,
//! output element type) pair, and the position-by-position comparison with the model.

use tevec::prelude::{Cast, IsNone, Number};

use crate::conv::{materialize, normalize, InElem, OutElem};
use crate::engine::{fail, CheckResult, Fail, Obs};
use crate::gen::{InT, OutT, Roll2Case, RollCase, Series};
use crate::model::{compare, expect_series, expect_series2, lo_of, Exp, Stat, Stat2, Tri};
use crate::sut;

fn run_valid<T, U>(c: &RollCase, stat: Stat) -> Result<Series, String>
where
    T: InElem + IsNone,
    T::Inner: Number,
    U: OutElem,
    f64: Cast<U>,
    Option<T::Inner>: Cast<U>,
{
    let data: Vec<T> = materialize(&c.x);
    let out: Vec<U> = sut::via_vec(data.len(), c.out_buf, |buf| match stat {
        Stat::Fdiff(d) => sut::roll_vfdiff::<Vec<T>, T, Vec<U>, U>(&data, d, c.w, c.mp, buf),
        _ => sut::roll_valid::<Vec<T>, T, Vec<U>, U>(&data, stat, c.w, c.mp, buf),
    })?;
    Ok(normalize(out))
}

fn run_plain<T, U>(c: &RollCase, stat: Stat) -> Result<Series, String>
where
    T: InElem + Number + Cast<f64>,
    U: OutElem,
    f64: Cast<U>,
{
    let data: Vec<T> = materialize(&c.x);
    let out: Vec<U> = sut::via_vec(data.len(), c.out_buf, |buf| match stat {
        Stat::Fdiff(d) => sut::roll_fdiff::<Vec<T>, T, Vec<U>, U>(&data, d, c.w, buf),
        _ => sut::roll_plain::<Vec<T>, T, Vec<U>, U>(&data, stat, c.w, c.mp, buf),
    })?;
    Ok(normalize(out))
}

macro_rules! by_out {
    ($tout:expr, $f:ident, $T:ty, $($a:expr),*) => {
        match $tout {
            OutT::F64 => $f::<$T, f64>($($a),*),
            OutT::F32 => $f::<$T, f32>($($a),*),
            OutT::OptF64 => $f::<$T, Option<f64>>($($a),*),
            OutT::I32 => $f::<$T, i32>($($a),*),
            OutT::OptI32 => $f::<$T, Option<i32>>($($a),*),
        }
    };
}

/// Evaluate a null-aware (`ts_v*`) statistic on the Vec backend.
pub fn eval_valid(c: &RollCase, stat: Stat) -> Result<Series, String> {
    match c.tin {
        InT::F64 => by_out!(c.tout, run_valid, f64, c, stat),
        InT::F32 => by_out!(c.tout, run_valid, f32, c, stat),
        InT::I32 => by_out!(c.tout, run_valid, i32, c, stat),
        InT::I64 => by_out!(c.tout, run_valid, i64, c, stat),
        InT::OptF64 => by_out!(c.tout, run_valid, Option<f64>, c, stat),
        InT::OptI32 => by_out!(c.tout, run_valid, Option<i32>, c, stat),
    }
}

/// Evaluate a plain (`ts_sum`..`ts_kurt`, `ts_fdiff`) statistic on the Vec backend.
pub fn eval_plain(c: &RollCase, stat: Stat) -> Result<Series, String> {
    match c.tin {
        InT::F64 => by_out!(c.tout, run_plain, f64, c, stat),
        InT::F32 => by_out!(c.tout, run_plain, f32, c, stat),
        InT::I32 => by_out!(c.tout, run_plain, i32, c, stat),
        InT::I64 => by_out!(c.tout, run_plain, i64, c, stat),
        _ => Err("plain family needs a non-optional numeric element type".into()),
    }
}

pub fn rel_sig(rel: &str) -> String {
    let head = rel.split(' ').next().unwrap_or(rel);
    head.trim_end_matches(':').to_string()
}

/// Compare a produced series with the model; fills `obs`.
pub fn compare_series(name: &str, got: &Series, exp: &[Exp], tout: OutT, len: usize, obs: &mut Obs) -> CheckResult {
    if got.len() != len {
        return fail("len", format!("{}: output length {} for input length {}", name, got.len(), len));
    }
    for i in 0..len {
        let e = &exp[i];
        obs.class_if(e.band, "eps_band");
        obs.class_if(e.ill && e.null != Tri::Any, "ill_conditioned");
        match compare(got[i], e, tout) {
            Ok(r) => {
                if !e.alts.is_empty() && got[i].is_some() {
                    obs.compared += 1;
                    if !e.band && !e.ill && matches!(tout, OutT::F64 | OutT::OptF64) {
                        obs.ratio(r);
                    }
                }
            },
            Err(rel) => {
                return fail(rel_sig(&rel), format!("{} at position {}: {}", name, i, rel));
            },
        }
    }
    Ok(())
}

fn classify(c_x: &Series, w: usize, obs: &mut Obs) {
    let len = c_x.len();
    obs.class_if(len == 0, "len=0");
    obs.class_if(len > 0 && len < w, "len<w");
    obs.class_if(w == 1, "w=1");
    obs.class_if(len > 0 && c_x.iter().all(|v| v.is_none()), "all_null");
    obs.class_if(len >= 2000, "long_history");
}

/// does some window (position >= w-1, i.e. after at least one removal) contain a null?
fn null_in_full_window(x: &Series, w: usize) -> bool {
    let len = x.len();
    if len <= w {
        return false;
    }
    (w..len).any(|i| (lo_of(i, w)..=i).any(|j| x[j].is_none()))
}

/// C01/C03-style check of one single-series statistic.
pub fn check1(c: &RollCase, stat: Stat, valid: bool, obs: &mut Obs) -> CheckResult {
    let name = format!("{}{}", if valid { "ts_v" } else { "ts_" }, stat.name());
    let got = if valid { eval_valid(c, stat) } else { eval_plain(c, stat) }.map_err(|e| Fail {
        sig: "out-path".into(),
        detail: format!("{}: {}", name, e),
    })?;
    let exp = expect_series(stat, &c.x, c.w, c.mp);
    compare_series(&name, &got, &exp, c.tout, c.x.len(), obs)?;
    classify(&c.x, c.w, obs);
    obs.class_if(c.out_buf, "out_buffer_path");
    let len = c.x.len();
    let some_out = got.iter().any(|g| g.is_some()) && exp.iter().any(|e| e.null == Tri::No);
    let nt = len > c.w && some_out && (!valid || !c.tin.nullable() || null_in_full_window(&c.x, c.w));
    obs.set_nontrivial(nt);
    Ok(())
}

// ---------------------------------------------------------------------------------------------
// two-series

fn run2<O: OutElem>(c: &Roll2Case, stat: Stat2) -> Result<Series, String>
where
    f64: Cast<O>,
{
    let a: Vec<f64> = materialize(&c.x);
    let b: Vec<f64> = materialize(&c.y);
    match stat {
        Stat2::RegxAllAlpha | Stat2::RegxAllBeta | Stat2::RegxAllSse => {
            let r: Vec<(O, O, O)> = sut::roll2_all::<Vec<f64>, f64, Vec<f64>, f64, Vec<(O, O, O)>, O>(&a, &b, c.w, c.mp);
            Ok(r
                .into_iter()
                .map(|t| match stat {
                    Stat2::RegxAllAlpha => t.0.to_logical(),
                    Stat2::RegxAllBeta => t.1.to_logical(),
                    _ => t.2.to_logical(),
                })
                .collect())
        },
        _ => {
            let out: Vec<O> = sut::via_vec(a.len(), c.out_buf, |buf| sut::roll2::<Vec<f64>, f64, Vec<f64>, f64, Vec<O>, O>(&a, &b, stat, c.w, c.mp, buf))?;
            Ok(normalize(out))
        },
    }
}

pub fn eval2(c: &Roll2Case, stat: Stat2) -> Result<Series, String> {
    run2::<f64>(c, stat)
}

pub fn check2(c: &Roll2Case, stat: Stat2, obs: &mut Obs) -> CheckResult {
    let name = format!("ts_v{}", stat.name());
    let got = eval2(c, stat).map_err(|e| Fail {
        sig: "out-path".into(),
        detail: format!("{}: {}", name, e),
    })?;
    let exp = expect_series2(stat, &c.x, &c.y, c.w, c.mp);
    compare_series(&name, &got, &exp, OutT::F64, c.x.len(), obs)?;
    classify(&c.x, c.w, obs);
    let len = c.x.len();
    // non-trivial: a removal happened, >= 3 complete pairs in some compared window, null patterns differ
    let patterns_differ = c.x.iter().zip(c.y.iter()).any(|(a, b)| a.is_none() != b.is_none());
    let mut three = false;
    for i in c.w..len {
        let n = (lo_of(i, c.w)..=i).filter(|j| c.x[*j].is_some() && c.y[*j].is_some()).count();
        if n >= 3 && exp[i].null == Tri::No {
            three = true;
            break;
        }
    }
    obs.class_if(patterns_differ, "null_patterns_differ");
    obs.class_if(c.class.starts_with("collinear"), "collinear");
    obs.set_nontrivial(len > c.w && three && patterns_differ);
    Ok(())
}


// ---------------------------------------------------------------------------------------------
// matrix evaluation (any backend / output container) of a RollCase

#[cfg(feature = "matrix")]
pub use self::mat::*;

#[cfg(feature = "matrix")]
mod mat {
use super::*;
use crate::backends::{Backend, OutKind};
use crate::gen::{Mat2Case, MatCase};
use crate::matrix::{self, Req};

fn on_valid<T, U>(m: &MatCase, stat: Stat) -> Option<Result<(Series, &'static str), String>>
where
    T: InElem + IsNone,
    T::Inner: Number,
    U: OutElem,
    f64: Cast<U>,
    Option<T::Inner>: Cast<U>,
{
    let data: Vec<T> = materialize(&m.c.x);
    let filler = T::from_logical(Some(777.0));
    matrix::eval_valid_on::<T, U>(
        m.bk,
        &data,
        filler,
        stat,
        Req {
            w: m.c.w,
            mp: m.c.mp,
            out_buf: m.c.out_buf,
            out_kind: m.ok,
        },
    )
}

fn on_plain<T, U>(m: &MatCase, stat: Stat) -> Option<Result<(Series, &'static str), String>>
where
    T: InElem + Number,
    U: OutElem,
    f64: Cast<U>,
{
    let data: Vec<T> = materialize(&m.c.x);
    let filler = T::from_logical(Some(777.0));
    matrix::eval_plain_on::<T, U>(
        m.bk,
        &data,
        filler,
        stat,
        Req {
            w: m.c.w,
            mp: m.c.mp,
            out_buf: m.c.out_buf,
            out_kind: m.ok,
        },
    )
}

macro_rules! by_out3 {
    ($tout:expr, $f:ident, $T:ty, $($a:expr),*) => {
        match $tout {
            OutT::F64 | OutT::F32 => $f::<$T, f64>($($a),*),
            OutT::OptF64 | OutT::OptI32 => $f::<$T, Option<f64>>($($a),*),
            OutT::I32 => $f::<$T, i32>($($a),*),
        }
    };
}

/// Matrix evaluation supports the element types {f64, Option<f64>, i32} x outputs {f64,
/// Option<f64>, i32}; other requests are mapped onto these.
pub fn eval_valid_mat(m: &MatCase, stat: Stat) -> Option<Result<(Series, &'static str), String>> {
    match m.c.tin {
        InT::F64 | InT::F32 => by_out3!(m.c.tout, on_valid, f64, m, stat),
        InT::OptF64 => by_out3!(m.c.tout, on_valid, Option<f64>, m, stat),
        InT::I32 | InT::I64 | InT::OptI32 => by_out3!(m.c.tout, on_valid, i32, m, stat),
    }
}

pub fn eval_plain_mat(m: &MatCase, stat: Stat) -> Option<Result<(Series, &'static str), String>> {
    match m.c.tin {
        InT::I32 | InT::I64 | InT::OptI32 => by_out3!(m.c.tout, on_plain, i32, m, stat),
        _ => by_out3!(m.c.tout, on_plain, f64, m, stat),
    }
}

pub fn mat_tout(t: OutT) -> OutT {
    match t {
        OutT::F64 | OutT::F32 => OutT::F64,
        OutT::OptF64 | OutT::OptI32 => OutT::OptF64,
        OutT::I32 => OutT::I32,
    }
}

pub fn eval2_mat(m: &Mat2Case, stat: Stat2) -> Result<(Series, &'static str), String> {
    let a: Vec<f64> = materialize(&m.c.x);
    let b: Vec<f64> = materialize(&m.c.y);
    let req = Req {
        w: m.c.w,
        mp: m.c.mp,
        out_buf: m.c.out_buf,
        out_kind: m.ok,
    };
    match stat {
        Stat2::RegxAllAlpha | Stat2::RegxAllBeta | Stat2::RegxAllSse => {
            let (r, label) = matrix::eval2_all_on::<f64, f64, f64>(m.bk, m.bk2, &a, &b, 777.0, 777.0, m.c.w, m.c.mp);
            let [al, be, ss] = r;
            Ok((
                match stat {
                    Stat2::RegxAllAlpha => al,
                    Stat2::RegxAllBeta => be,
                    _ => ss,
                },
                label,
            ))
        },
        _ => matrix::eval2_on::<f64, f64, f64>(m.bk, m.bk2, &a, &b, 777.0, 777.0, stat, req),
    }
}

/// Boolean mask law (C05): null where the model says null, non-null where it says non-null.
pub fn mask_check(name: &str, got: &Series, exp: &[Exp], tout: OutT, len: usize) -> CheckResult {
    if got.len() != len {
        return fail("len", format!("{}: output length {} for input length {}", name, got.len(), len));
    }
    for i in 0..len {
        let is_null = match tout {
            OutT::I32 => got[i] == Some(0.0) || got[i].is_none(),
            _ => got[i].is_none(),
        };
        match exp[i].null {
            Tri::Yes => {
                if !is_null {
                    return fail("mask:expected-null", format!("{} at position {}: expected null, got {:?}", name, i, got[i]));
                }
            },
            Tri::No => {
                if tout != OutT::I32 {
                    if is_null {
                        return fail("mask:expected-non-null", format!("{} at position {}: expected a value, got null", name, i));
                    }
                    if let Some(g) = got[i] {
                        if !g.is_finite() && exp[i].alts.iter().all(|(v, _)| v.is_finite()) && !exp[i].alts.is_empty() {
                            return fail("mask:non-finite", format!("{} at position {}: expected a finite value, got {}", name, i, g));
                        }
                    }
                }
            },
            Tri::Any => {},
        }
    }
    Ok(())
}

pub fn backend_classes(bk: Backend, ok: OutKind, label: &'static str, out_buf: bool, obs: &mut Obs) {
    let _ = bk;
    obs.class(label);
    obs.class(ok.label());
    obs.class_if(out_buf, "out_buffer_path");
}
}
