//! Engine: runs sub-properties under proptest with deterministic seeds, catches panics,
//! shrinks, writes replay files, handles known findings and writes evidence.
//!
//! Nothing in here knows about tevec.

use std::cell::RefCell;
use std::collections::{BTreeMap, HashSet};
use std::fmt::Debug;
use std::panic::{catch_unwind, AssertUnwindSafe};
use std::path::{Path, PathBuf};
use std::sync::atomic::{AtomicUsize, Ordering};
use std::sync::{Arc, Mutex};
use std::time::{Duration, Instant};

use proptest::strategy::Strategy;
use proptest::test_runner::{Config, RngAlgorithm, TestCaseError, TestError, TestRng, TestRunner};
use serde::de::DeserializeOwned;
use serde::Serialize;
use serde_json::{json, Value};

pub const DEFAULT_ROOT: &str = "/verif";

/// root of the verification tree (overridable so that a scratch copy can run beside the real one)
pub fn verif_root() -> String {
    std::env::var("VERIF_ROOT").unwrap_or_else(|_| DEFAULT_ROOT.to_string())
}

#[derive(Clone, Copy, Debug, PartialEq, Eq)]
pub enum Tier {
    Quick,
    Thorough,
}

impl Tier {
    pub fn name(self) -> &'static str {
        match self {
            Tier::Quick => "quick",
            Tier::Thorough => "thorough",
        }
    }
    pub fn pick<T>(self, q: T, t: T) -> T {
        match self {
            Tier::Quick => q,
            Tier::Thorough => t,
        }
    }
}

/// A failed check: `sig` identifies the failing relation (stable, specific), `detail` is free text.
#[derive(Clone, Debug)]
pub struct Fail {
    pub sig: String,
    pub detail: String,
}

pub type CheckResult = Result<(), Fail>;

pub fn fail<T>(sig: impl Into<String>, detail: impl Into<String>) -> Result<T, Fail> {
    Err(Fail {
        sig: sig.into(),
        detail: detail.into(),
    })
}

/// Per-case observations made by the check (classification, non-triviality, tolerance use).
#[derive(Default, Debug)]
pub struct Obs {
    pub nontrivial: bool,
    pub classes: Vec<&'static str>,
    pub err_over_tol: f64,
    pub compared: u64,
}

impl Obs {
    pub fn class(&mut self, c: &'static str) {
        if !self.classes.contains(&c) {
            self.classes.push(c);
        }
    }
    pub fn class_if(&mut self, cond: bool, c: &'static str) {
        if cond {
            self.class(c)
        }
    }
    pub fn set_nontrivial(&mut self, b: bool) {
        self.nontrivial = self.nontrivial || b;
    }
    pub fn ratio(&mut self, r: f64) {
        if r.is_finite() && r > self.err_over_tol {
            self.err_over_tol = r;
        }
    }
}

// ---------------------------------------------------------------------------------------------
// panic capture

thread_local! {
    static LAST_PANIC_LOC: RefCell<Option<String>> = const { RefCell::new(None) };
}

pub fn install_quiet_panic_hook() {
    std::panic::set_hook(Box::new(|info| {
        let loc = info
            .location()
            .map(|l| {
                let f = l.file();
                // keep the path from the crate directory on (tea-xxx/src/..)
                let short = match f.find("/repo/") {
                    Some(p) => &f[p + 6..],
                    None => f,
                };
                short.to_string()
            })
            .unwrap_or_default();
        LAST_PANIC_LOC.with(|c| *c.borrow_mut() = Some(loc));
    }));
}

fn normalize_msg(m: &str) -> String {
    let mut out = String::new();
    let mut last_hash = false;
    for ch in m.chars().take(90) {
        if ch.is_ascii_digit() {
            if !last_hash {
                out.push('#');
                last_hash = true;
            }
        } else {
            last_hash = false;
            out.push(if ch == '\n' { ' ' } else { ch });
        }
    }
    out
}

/// Run `f`, turning a panic into a `Fail` whose signature names the source file and the
/// (digit-normalised) message.
pub fn guard<T>(f: impl FnOnce() -> Result<T, Fail>) -> Result<T, Fail> {
    LAST_PANIC_LOC.with(|c| *c.borrow_mut() = None);
    match catch_unwind(AssertUnwindSafe(f)) {
        Ok(r) => r,
        Err(p) => {
            let msg = if let Some(s) = p.downcast_ref::<&str>() {
                s.to_string()
            } else if let Some(s) = p.downcast_ref::<String>() {
                s.clone()
            } else {
                "<non-string panic>".to_string()
            };
            let loc = LAST_PANIC_LOC.with(|c| c.borrow().clone()).unwrap_or_default();
            Err(Fail {
                sig: format!("panic@{}:{}", loc, normalize_msg(&msg)),
                detail: format!("panic at {}: {}", loc, msg),
            })
        },
    }
}

/// Like `guard` but returns the panic as `Err(message)` so that checks which *allow* a clean
/// panic (C10 degenerate parameters) can inspect it.
pub fn catch<T>(f: impl FnOnce() -> T) -> Result<T, String> {
    LAST_PANIC_LOC.with(|c| *c.borrow_mut() = None);
    match catch_unwind(AssertUnwindSafe(f)) {
        Ok(r) => Ok(r),
        Err(p) => {
            let msg = if let Some(s) = p.downcast_ref::<&str>() {
                s.to_string()
            } else if let Some(s) = p.downcast_ref::<String>() {
                s.clone()
            } else {
                "<non-string panic>".to_string()
            };
            let loc = LAST_PANIC_LOC.with(|c| c.borrow().clone()).unwrap_or_default();
            Err(format!("{}:{}", loc, normalize_msg(&msg)))
        },
    }
}

// ---------------------------------------------------------------------------------------------
// hashing / seeds

pub fn fnv1a(bytes: &[u8]) -> u64 {
    let mut h: u64 = 0xcbf29ce484222325;
    for b in bytes {
        h ^= *b as u64;
        h = h.wrapping_mul(0x100000001b3);
    }
    h
}

fn seed_bytes(seed: u64, name: &str, shard: u32, round: u32) -> [u8; 32] {
    let mut out = [0u8; 32];
    let mut h = fnv1a(name.as_bytes()) ^ seed.wrapping_mul(0x9E3779B97F4A7C15);
    for (k, chunk) in out.chunks_mut(8).enumerate() {
        h = (h ^ ((shard as u64) << 32) ^ (round as u64) ^ (k as u64).wrapping_mul(0xD6E8FEB86659FD93))
            .wrapping_mul(0x100000001b3)
            .rotate_left(23)
            ^ seed;
        h = fnv1a(&h.to_le_bytes());
        chunk.copy_from_slice(&h.to_le_bytes());
    }
    out
}

// ---------------------------------------------------------------------------------------------
// known findings

#[derive(Clone, Debug)]
pub struct KnownEntry {
    pub status: String,
    pub property: String,
    pub signature: String,
    pub what: String,
}

pub fn load_known(prop: &str) -> Vec<KnownEntry> {
    let p = Path::new(&verif_root()).join("known_findings.jsonl");
    let mut out = vec![];
    if let Ok(s) = std::fs::read_to_string(&p) {
        for line in s.lines() {
            let line = line.trim();
            if line.is_empty() || line.starts_with('#') {
                continue;
            }
            if let Ok(v) = serde_json::from_str::<Value>(line) {
                let e = KnownEntry {
                    status: v["status"].as_str().unwrap_or("").to_string(),
                    property: v["property"].as_str().unwrap_or("").to_string(),
                    signature: v["signature"].as_str().unwrap_or("").to_string(),
                    what: v["what"].as_str().unwrap_or("").to_string(),
                };
                if e.property == prop && e.status == "known" {
                    out.push(e);
                }
            }
        }
    }
    out
}

// ---------------------------------------------------------------------------------------------
// sub-properties

#[derive(Default, Debug)]
pub struct SubReport {
    pub name: String,
    pub evaluations: u64,
    pub nontrivial: HashSet<u64>,
    pub classes: BTreeMap<String, u64>,
    pub samples: Vec<Value>,
    pub excluded_known: BTreeMap<String, u64>,
    pub max_err_over_tol: f64,
    pub compared: u64,
    pub exhaustive: bool,
    pub violations: Vec<ViolationRec>,
}

#[derive(Clone, Debug)]
pub struct ViolationRec {
    pub sub: String,
    pub sig: String,
    pub detail: String,
    pub case: Value,
}

pub struct RunCfg {
    pub prop: String,
    pub tier: Tier,
    pub seed: u64,
    pub known: Vec<KnownEntry>,
}

type RunFn = dyn Fn(&RunCfg, u32, u32) -> SubReport + Send + Sync;
type ReplayFn = dyn Fn(&Value) -> Result<CheckResult, String> + Send + Sync;

pub struct Sub {
    pub name: String,
    pub cases: u32,
    pub shards: u32,
    /// run this sub-property first in a child process (quick scale): it drives real containers
    /// through unchecked writes, so a breach may kill the process instead of failing an oracle
    pub canary: bool,
    run: Box<RunFn>,
    replay: Box<ReplayFn>,
}

/// Marks a sub-property as one whose violations may take the whole process down (heap corruption,
/// std's unsafe-precondition aborts). The engine then runs it once in a child process before running
/// it in-process; a child that dies by a signal is reported as a violation with a replay file that
/// re-runs the child, and the in-process run is skipped.
pub fn canary(f: impl Fn(Tier) -> Sub + 'static) -> impl Fn(Tier) -> Sub + 'static {
    move |t| {
        let mut s = f(t);
        s.canary = true;
        s
    }
}

/// Runs `sub` alone in a child process; Some(detail) if the child was killed by a signal / aborted.
fn canary_child(sub: &str) -> Option<String> {
    let exe = std::env::current_exe().ok()?;
    let out = std::process::Command::new(exe)
        .args(["quick", "--only", sub])
        .env("VERIF_CHILD", "1")
        .env("VERIF_QUICK_FACTOR", "1")
        .stdout(std::process::Stdio::null())
        .stderr(std::process::Stdio::null())
        .status()
        .ok()?;
    #[cfg(unix)]
    {
        use std::os::unix::process::ExitStatusExt;
        if let Some(sig) = out.signal() {
            return Some(format!("a child process running only sub-property '{}' was killed by signal {} (memory error / unsafe precondition in the code under test; nothing an in-process oracle can report)", sub, sig));
        }
    }
    match out.code() {
        Some(c) if c >= 128 => Some(format!("a child process running only sub-property '{}' exited with status {}", sub, c)),
        _ => None,
    }
}

struct Acc {
    evaluations: u64,
    nontrivial: HashSet<u64>,
    classes: BTreeMap<String, u64>,
    samples_first: Vec<Value>,
    samples_res: Vec<Value>,
    res_seen: u64,
    excluded: BTreeMap<String, u64>,
    max_ratio: f64,
    compared: u64,
    failing_sig: Option<String>,
    failing_detail: String,
}

impl Acc {
    fn new() -> Self {
        Acc {
            evaluations: 0,
            nontrivial: HashSet::new(),
            classes: BTreeMap::new(),
            samples_first: vec![],
            samples_res: vec![],
            res_seen: 0,
            excluded: BTreeMap::new(),
            max_ratio: 0.0,
            compared: 0,
            failing_sig: None,
            failing_detail: String::new(),
        }
    }
}

/// a sample for the evidence file; very long cases (20k-element histories) are abbreviated
fn sample_value(js: &str) -> Value {
    if js.len() > 3000 {
        let mut end = 1200;
        while !js.is_char_boundary(end) {
            end -= 1;
        }
        json!({"abbreviated": true, "json_chars": js.len(), "json_head": &js[..end]})
    } else {
        serde_json::from_str(js).unwrap_or(Value::Null)
    }
}

fn record<C: Serialize>(acc: &mut Acc, case: &C, obs: &Obs) {
    acc.evaluations += 1;
    for c in &obs.classes {
        *acc.classes.entry((*c).to_string()).or_insert(0) += 1;
    }
    if obs.err_over_tol > acc.max_ratio {
        acc.max_ratio = obs.err_over_tol;
    }
    acc.compared += obs.compared;
    if obs.nontrivial {
        let js = serde_json::to_string(case).unwrap_or_default();
        let fp = fnv1a(js.as_bytes());
        if acc.nontrivial.insert(fp) {
            if acc.samples_first.len() < 2 {
                acc.samples_first.push(sample_value(&js));
            } else {
                // deterministic reservoir of size 2 keyed on the fingerprint
                acc.res_seen += 1;
                if acc.samples_res.len() < 2 {
                    acc.samples_res.push(sample_value(&js));
                } else if fp % acc.res_seen == 0 {
                    let k = (fp / 7) as usize % 2;
                    acc.samples_res[k] = sample_value(&js);
                }
            }
        }
    }
}

fn is_known(known: &[KnownEntry], full_sig: &str) -> bool {
    known.iter().any(|k| k.signature == full_sig)
}

/// Build a generated sub-property.
///
/// * `strat`: builds the proptest strategy (called on the worker thread).
/// * `check`: the property; must be a pure function of the case.
pub fn sub<C, S, SF, F>(name: &str, cases_quick: u32, cases_thorough: u32, strat: SF, check: F) -> impl Fn(Tier) -> Sub
where
    C: Debug + Clone + Serialize + DeserializeOwned + 'static,
    S: Strategy<Value = C>,
    SF: Fn(Tier) -> S + Send + Sync + Clone + 'static,
    F: Fn(&C, &mut Obs) -> CheckResult + Send + Sync + Clone + 'static,
{
    let name = name.to_string();
    move |tier: Tier| {
        // the per-sub numbers in the binaries are base counts; the quick tier runs 4x of them so
        // that a quick check is still a substantial fixed amount of work (0.5-5 s per property)
        let qf: u32 = std::env::var("VERIF_QUICK_FACTOR").ok().and_then(|v| v.parse().ok()).unwrap_or(4);
        // likewise the thorough base counts are multiplied (default 4: 20-90 s per property on 16 cores)
        let tf: u32 = std::env::var("VERIF_THOROUGH_FACTOR").ok().and_then(|v| v.parse().ok()).unwrap_or(4);
        let cases = tier.pick(cases_quick.saturating_mul(qf), cases_thorough.saturating_mul(tf));
        let shards = if cases >= 4000 { 16 } else if cases >= 800 { 4 } else { 1 };
        let name2 = name.clone();
        let name3 = name.clone();
        let strat = strat.clone();
        let check = check.clone();
        let check2 = check.clone();
        Sub {
            canary: false,
            name: name.clone(),
            cases,
            shards,
            run: Box::new(move |cfg: &RunCfg, shard: u32, shard_cases: u32| {
                run_generated(cfg, &name2, shard, shard_cases, &strat, &check)
            }),
            replay: Box::new(move |v: &Value| {
                let case: C = serde_json::from_value(v.clone()).map_err(|e| format!("cannot decode case for {}: {}", name3, e))?;
                let mut obs = Obs::default();
                Ok(guard(|| check2(&case, &mut obs)))
            }),
        }
    }
}

fn run_generated<C, S, SF, F>(cfg: &RunCfg, name: &str, shard: u32, cases: u32, strat: &SF, check: &F) -> SubReport
where
    C: Debug + Clone + Serialize + DeserializeOwned + 'static,
    S: Strategy<Value = C>,
    SF: Fn(Tier) -> S,
    F: Fn(&C, &mut Obs) -> CheckResult,
{
    let mut report = SubReport {
        name: name.to_string(),
        ..Default::default()
    };
    let mut session_excluded: Vec<String> = vec![];
    // after a violation the search is repeated with that signature excluded, so that one shallow
    // defect cannot hide another one behind it
    for round in 0..4u32 {
        let acc = RefCell::new(Acc::new());
        let mut config = Config::default();
        config.cases = cases;
        config.failure_persistence = None;
        config.max_shrink_iters = 2048;
        config.max_shrink_time = 0;
        config.verbose = 0;
        config.max_global_rejects = 65536;
        let rng = TestRng::from_seed(RngAlgorithm::ChaCha, &seed_bytes(cfg.seed, name, shard, 0));
        let mut runner = TestRunner::new_with_rng(config, rng);
        let strategy = strat(cfg.tier);
        let result = runner.run(&strategy, |case: C| {
            let mut obs = Obs::default();
            let r = guard(|| check(&case, &mut obs));
            let mut a = acc.borrow_mut();
            match r {
                Ok(()) => {
                    if a.failing_sig.is_none() {
                        record(&mut a, &case, &obs);
                    }
                    Ok(())
                },
                Err(f) => {
                    let full = format!("{}:{}", name, f.sig);
                    if is_known(&cfg.known, &full) {
                        if a.failing_sig.is_none() {
                            *a.excluded.entry(full).or_insert(0) += 1;
                            a.evaluations += 1;
                        }
                        return Ok(());
                    }
                    if session_excluded.contains(&full) {
                        return Ok(());
                    }
                    match &a.failing_sig {
                        None => {
                            a.failing_sig = Some(full.clone());
                            a.failing_detail = f.detail.clone();
                            Err(TestCaseError::fail(full))
                        },
                        Some(s) if *s == full => {
                            a.failing_detail = f.detail.clone();
                            Err(TestCaseError::fail(full))
                        },
                        // while shrinking, only the original signature counts as failure
                        Some(_) => Ok(()),
                    }
                },
            }
        });
        let a = acc.into_inner();
        // keep the counters of the latest round (they include everything generated in it)
        report.evaluations = a.evaluations;
        report.nontrivial = a.nontrivial;
        report.classes = a.classes;
        report.samples = a.samples_first.into_iter().chain(a.samples_res).collect();
        report.excluded_known = a.excluded;
        report.max_err_over_tol = a.max_ratio;
        report.compared = a.compared;
        match result {
            Ok(()) => break,
            Err(TestError::Fail(reason, case)) => {
                let sig = a.failing_sig.clone().unwrap_or_else(|| reason.message().to_string());
                report.violations.push(ViolationRec {
                    sub: name.to_string(),
                    sig: sig.clone(),
                    detail: a.failing_detail.clone(),
                    case: serde_json::to_value(&case).unwrap_or(Value::Null),
                });
                session_excluded.push(sig);
                let _ = round;
            },
            Err(TestError::Abort(reason)) => {
                report.violations.push(ViolationRec {
                    sub: name.to_string(),
                    sig: format!("{}:harness-abort", name),
                    detail: format!("proptest aborted: {}", reason.message()),
                    case: Value::Null,
                });
                break;
            },
        }
    }
    report
}

/// Build an exhaustively enumerated sub-property (cases are produced in increasing size order, so
/// the first failure is already minimal in that order).
pub fn sub_enum<C, I, IF, F>(name: &str, iter: IF, check: F) -> impl Fn(Tier) -> Sub
where
    C: Debug + Clone + Serialize + DeserializeOwned + 'static,
    I: Iterator<Item = C>,
    IF: Fn(Tier) -> I + Send + Sync + Clone + 'static,
    F: Fn(&C, &mut Obs) -> CheckResult + Send + Sync + Clone + 'static,
{
    let name = name.to_string();
    move |_tier: Tier| {
        let name2 = name.clone();
        let name3 = name.clone();
        let iter = iter.clone();
        let check = check.clone();
        let check2 = check.clone();
        Sub {
            canary: false,
            name: name.clone(),
            cases: 0,
            shards: 1,
            run: Box::new(move |cfg: &RunCfg, _shard: u32, _cases: u32| {
                let mut report = SubReport {
                    name: name2.clone(),
                    exhaustive: true,
                    ..Default::default()
                };
                let mut acc = Acc::new();
                let mut seen_sigs: Vec<String> = vec![];
                for case in iter(cfg.tier) {
                    let mut obs = Obs::default();
                    match guard(|| check(&case, &mut obs)) {
                        Ok(()) => record(&mut acc, &case, &obs),
                        Err(f) => {
                            let full = format!("{}:{}", name2, f.sig);
                            acc.evaluations += 1;
                            if is_known(&cfg.known, &full) {
                                *acc.excluded.entry(full).or_insert(0) += 1;
                            } else if !seen_sigs.contains(&full) {
                                seen_sigs.push(full.clone());
                                report.violations.push(ViolationRec {
                                    sub: name2.clone(),
                                    sig: full,
                                    detail: f.detail,
                                    case: serde_json::to_value(&case).unwrap_or(Value::Null),
                                });
                            }
                        },
                    }
                }
                report.evaluations = acc.evaluations;
                report.nontrivial = acc.nontrivial;
                report.classes = acc.classes;
                report.samples = acc.samples_first.into_iter().chain(acc.samples_res).collect();
                report.excluded_known = acc.excluded;
                report.max_err_over_tol = acc.max_ratio;
                report.compared = acc.compared;
                report
            }),
            replay: Box::new(move |v: &Value| {
                let case: C = serde_json::from_value(v.clone()).map_err(|e| format!("cannot decode case for {}: {}", name3, e))?;
                let mut obs = Obs::default();
                Ok(guard(|| check2(&case, &mut obs)))
            }),
        }
    }
}

// ---------------------------------------------------------------------------------------------
// property driver

pub struct Property {
    pub id: &'static str,
    pub rule: &'static str,
    pub assumptions: Vec<&'static str>,
    pub subs: Vec<Box<dyn Fn(Tier) -> Sub>>,
    /// decodes a raw libFuzzer artefact into (sub-property name, case) for `--replay`
    pub raw_decoder: Option<Box<dyn Fn(&[u8]) -> (String, Value)>>,
}

impl Property {
    pub fn new(id: &'static str, rule: &'static str) -> Self {
        Property {
            id,
            rule,
            assumptions: vec![],
            subs: vec![],
            raw_decoder: None,
        }
    }
    pub fn raw(mut self, f: impl Fn(&[u8]) -> (String, Value) + 'static) -> Self {
        self.raw_decoder = Some(Box::new(f));
        self
    }
    pub fn assume(mut self, a: &'static str) -> Self {
        self.assumptions.push(a);
        self
    }
    pub fn add(&mut self, s: impl Fn(Tier) -> Sub + 'static) {
        self.subs.push(Box::new(s));
    }
}

struct Args {
    tier: Tier,
    replay: Option<PathBuf>,
    only: Option<String>,
    strict: bool,
    scale: f64,
}

fn parse_args() -> Args {
    let mut tier = match std::env::var("VERIF_TIER").ok().as_deref() {
        Some("thorough") => Tier::Thorough,
        _ => Tier::Quick,
    };
    let mut replay = None;
    let mut only = None;
    let mut strict = false;
    let mut scale = 1.0;
    let mut it = std::env::args().skip(1);
    while let Some(a) = it.next() {
        match a.as_str() {
            "quick" | "--quick" => tier = Tier::Quick,
            "thorough" | "--thorough" => tier = Tier::Thorough,
            "--replay" => replay = it.next().map(PathBuf::from),
            "--only" => only = it.next(),
            "--strict" => strict = true,
            "--scale" => scale = it.next().and_then(|s| s.parse().ok()).unwrap_or(1.0),
            _ => {},
        }
    }
    Args {
        tier,
        replay,
        only,
        strict,
        scale,
    }
}

fn sanitize(s: &str) -> String {
    let mut out: String = s
        .chars()
        .map(|c| if c.is_ascii_alphanumeric() || c == '-' || c == '_' { c } else { '_' })
        .collect();
    out.truncate(80);
    out
}

fn find_sub<'a>(subs: &'a [Sub], name: &str) -> Option<&'a Sub> {
    subs.iter().find(|s| s.name == name)
}

/// Evaluate one replay file. Returns Ok(None) if it passes, Ok(Some((sig, detail))) if it fails.
fn eval_replay(subs: &[Sub], path: &Path, raw: &Option<Box<dyn Fn(&[u8]) -> (String, Value)>>) -> Result<Option<(String, String)>, String> {
    let bytes = std::fs::read(path).map_err(|e| format!("{}: {}", path.display(), e))?;
    let parsed: Option<Value> = std::str::from_utf8(&bytes).ok().and_then(|t| serde_json::from_str::<Value>(t).ok()).filter(|v| v.get("sub").is_some() && v.get("case").is_some());
    let v: Value = match (parsed, raw) {
        (Some(v), _) => v,
        // not one of our JSON replay files: a raw fuzzer artefact
        (None, Some(dec)) => {
            let (sub, case) = dec(&bytes);
            json!({"sub": sub, "case": case})
        },
        (None, None) => return Err(format!("{}: neither a JSON replay file nor a decodable fuzz artefact", path.display())),
    };
    let sub_name = v["sub"].as_str().ok_or_else(|| format!("{}: no sub", path.display()))?;
    let sub = find_sub(subs, sub_name).ok_or_else(|| format!("{}: unknown sub {}", path.display(), sub_name))?;
    if v["case"].get("canary").is_some() {
        // the recorded failure was a dying child process: run the child again
        return Ok(canary_child(sub_name).map(|d| (format!("{}:process-aborted", sub_name), d)));
    }
    match (sub.replay)(&v["case"])? {
        Ok(()) => Ok(None),
        Err(f) => Ok(Some((format!("{}:{}", sub_name, f.sig), f.detail))),
    }
}

pub fn main_for(prop: Property) -> ! {
    install_quiet_panic_hook();
    let args = parse_args();
    let seed: u64 = std::env::var("VERIF_SEED")
        .ok()
        .and_then(|s| s.trim().parse::<i128>().ok())
        .map(|v| v as u64)
        .unwrap_or(0);
    let id = prop.id;
    let tier = args.tier;
    let known = if args.strict { vec![] } else { load_known(id) };
    let mut subs: Vec<Sub> = prop.subs.iter().map(|f| f(tier)).collect();
    if let Some(only) = &args.only {
        subs.retain(|s| s.name.contains(only.as_str()));
    }
    for s in subs.iter_mut() {
        if args.scale != 1.0 && s.cases > 0 {
            s.cases = ((s.cases as f64) * args.scale).ceil().max(1.0) as u32;
        }
    }

    // --replay: evaluate exactly one file, bypassing proptest
    if let Some(path) = &args.replay {
        match eval_replay(&subs, path, &prop.raw_decoder) {
            Ok(None) => {
                println!("replay {}: property held", path.display());
                std::process::exit(0);
            },
            Ok(Some((sig, detail))) => {
                if let Some(k) = known.iter().find(|k| k.signature == sig) {
                    println!("KNOWN-FINDING: property={} {}", id, k.what);
                    std::process::exit(0);
                }
                println!("replay {}: {} -- {}", path.display(), sig, detail);
                println!("VIOLATION property={} replay={}", id, path.display());
                std::process::exit(1);
            },
            Err(e) => {
                eprintln!("replay error: {}", e);
                std::process::exit(2);
            },
        }
    }

    let start = Instant::now();
    let cfg = Arc::new(RunCfg {
        prop: id.to_string(),
        tier,
        seed,
        known: known.clone(),
    });

    // regression corpus
    let mut violations: Vec<ViolationRec> = vec![];
    let mut known_hit: BTreeMap<String, u64> = BTreeMap::new();
    let mut replayed = 0u64;
    let corpus_dir = Path::new(&verif_root()).join("replays").join(id);
    if let Ok(rd) = std::fs::read_dir(&corpus_dir) {
        let mut files: Vec<PathBuf> = rd.filter_map(|e| e.ok().map(|e| e.path())).filter(|p| p.extension().map(|e| e == "json").unwrap_or(false)).collect();
        files.sort();
        for f in files {
            if let Some(only) = &args.only {
                let txt = std::fs::read_to_string(&f).unwrap_or_default();
                let v: Value = serde_json::from_str(&txt).unwrap_or(Value::Null);
                if !v["sub"].as_str().unwrap_or("").contains(only.as_str()) {
                    continue;
                }
            }
            // a property may be served by two binaries (C07 and its Polars cells): inputs of the
            // other binary's sub-properties are not ours to replay
            {
                let txt = std::fs::read_to_string(&f).unwrap_or_default();
                let v: Value = serde_json::from_str(&txt).unwrap_or(Value::Null);
                if let Some(sn) = v["sub"].as_str() {
                    if find_sub(&subs, sn).is_none() {
                        continue;
                    }
                }
            }
            replayed += 1;
            match eval_replay(&subs, &f, &prop.raw_decoder) {
                Ok(None) => {},
                Ok(Some((sig, detail))) => {
                    if is_known(&known, &sig) {
                        *known_hit.entry(sig).or_insert(0) += 1;
                    } else {
                        println!("regression input {} fails: {} -- {}", f.display(), sig, detail);
                        println!("VIOLATION property={} replay={}", id, f.display());
                        violations.push(ViolationRec {
                            sub: "replay".into(),
                            sig,
                            detail,
                            case: Value::String(f.display().to_string()),
                        });
                    }
                },
                Err(e) => {
                    eprintln!("replay corpus error: {}", e);
                    std::process::exit(2);
                },
            }
        }
    }
    let corpus_violations = violations.len();

    // canary phase: sub-properties that write through real containers run once in a child first
    let mut canary_dead: Vec<ViolationRec> = vec![];
    if std::env::var("VERIF_CHILD").is_err() {
        let names: Vec<String> = subs.iter().filter(|s| s.canary).map(|s| s.name.clone()).collect();
        for name in names {
            if let Some(detail) = canary_child(&name) {
                canary_dead.push(ViolationRec {
                    sub: name.clone(),
                    sig: format!("{}:process-aborted", name),
                    detail,
                    case: json!({"canary": name}),
                });
                subs.retain(|s| s.name != name);
            }
        }
    }

    // work items
    let mut items: Vec<(usize, u32, u32)> = vec![];
    for (i, s) in subs.iter().enumerate() {
        let shards = s.shards.max(1);
        let per = if s.cases == 0 { 0 } else { (s.cases + shards - 1) / shards };
        for sh in 0..shards {
            items.push((i, sh, per));
        }
    }
    let subs = Arc::new(subs);
    let next = Arc::new(AtomicUsize::new(0));
    let results: Arc<Mutex<Vec<(usize, SubReport)>>> = Arc::new(Mutex::new(vec![]));
    let items = Arc::new(items);
    let nthreads = std::thread::available_parallelism().map(|n| n.get()).unwrap_or(4).min(16).min(items.len().max(1));
    let (tx, rx) = std::sync::mpsc::channel::<()>();
    let mut handles = vec![];
    for _ in 0..nthreads {
        let subs = subs.clone();
        let next = next.clone();
        let results = results.clone();
        let items = items.clone();
        let cfg = cfg.clone();
        let tx = tx.clone();
        handles.push(
            std::thread::Builder::new()
                .stack_size(64 << 20)
                .spawn(move || {
                    loop {
                        let k = next.fetch_add(1, Ordering::SeqCst);
                        if k >= items.len() {
                            break;
                        }
                        let (si, shard, cases) = items[k];
                        let rep = (subs[si].run)(&cfg, shard, cases);
                        results.lock().unwrap().push((si, rep));
                    }
                    let _ = tx.send(());
                })
                .unwrap(),
        );
    }
    drop(tx);
    // watchdog: a hang is INCONCLUSIVE (exit 2), never a violation
    let budget = Duration::from_secs(match tier {
        Tier::Quick => 900,
        Tier::Thorough => 4 * 3600,
    });
    let mut finished = 0;
    while finished < nthreads {
        let left = budget.checked_sub(start.elapsed()).unwrap_or(Duration::from_secs(0));
        match rx.recv_timeout(left) {
            Ok(()) => finished += 1,
            Err(_) => {
                println!("INCONCLUSIVE property={} watchdog expired after {:?}", id, start.elapsed());
                std::process::exit(2);
            },
        }
    }
    for h in handles {
        let _ = h.join();
    }

    // merge
    let mut per_sub: BTreeMap<usize, SubReport> = BTreeMap::new();
    for (si, rep) in results.lock().unwrap().drain(..) {
        let e = per_sub.entry(si).or_insert_with(|| SubReport {
            name: rep.name.clone(),
            ..Default::default()
        });
        e.evaluations += rep.evaluations;
        e.nontrivial.extend(rep.nontrivial);
        for (k, v) in rep.classes {
            *e.classes.entry(k).or_insert(0) += v;
        }
        if e.samples.len() < 4 {
            e.samples.extend(rep.samples);
        }
        for (k, v) in rep.excluded_known {
            *e.excluded_known.entry(k).or_insert(0) += v;
        }
        if rep.max_err_over_tol > e.max_err_over_tol {
            e.max_err_over_tol = rep.max_err_over_tol;
        }
        e.compared += rep.compared;
        e.exhaustive = e.exhaustive || rep.exhaustive;
        for v in rep.violations {
            if !e.violations.iter().any(|x| x.sig == v.sig) {
                e.violations.push(v);
            }
        }
    }

    let fail_dir = Path::new(&verif_root()).join("failures").join(id);
    let mut evaluations = 0u64;
    let mut distinct = 0u64;
    let mut classes: BTreeMap<String, u64> = BTreeMap::new();
    let mut samples: Vec<Value> = vec![];
    let mut subs_json = serde_json::Map::new();
    let mut max_ratio = 0.0f64;
    let mut excluded_total = 0u64;
    let mut exhaustive_subs: Vec<String> = vec![];
    for (_si, rep) in per_sub.iter() {
        evaluations += rep.evaluations;
        distinct += rep.nontrivial.len() as u64;
        for (k, v) in &rep.classes {
            *classes.entry(k.clone()).or_insert(0) += v;
        }
        for s in rep.samples.iter().take(1) {
            samples.push(json!({"sub": rep.name, "case": s}));
        }
        if rep.max_err_over_tol > max_ratio {
            max_ratio = rep.max_err_over_tol;
        }
        for (k, v) in &rep.excluded_known {
            *known_hit.entry(k.clone()).or_insert(0) += v;
            excluded_total += v;
        }
        if rep.exhaustive {
            exhaustive_subs.push(rep.name.clone());
        }
        subs_json.insert(
            rep.name.clone(),
            json!({
                "evaluations": rep.evaluations,
                "distinct_nontrivial": rep.nontrivial.len(),
                "classes": rep.classes,
                "max_err_over_tol": rep.max_err_over_tol,
                "values_compared": rep.compared,
                "excluded_known": rep.excluded_known,
                "exhaustive": rep.exhaustive,
                "violations": rep.violations.iter().map(|v| v.sig.clone()).collect::<Vec<_>>(),
            }),
        );
        println!(
            "  {:<34} evals={:<7} nontrivial={:<7} max_err/tol={:<9.3e} {}",
            rep.name,
            rep.evaluations,
            rep.nontrivial.len(),
            rep.max_err_over_tol,
            if rep.violations.is_empty() { "ok".to_string() } else { format!("{} VIOLATION(S)", rep.violations.len()) }
        );
        for v in &rep.violations {
            let _ = std::fs::create_dir_all(&fail_dir);
            let fname = format!("{}-{}.json", sanitize(&v.sig), seed);
            let path = fail_dir.join(fname);
            let doc = json!({
                "property": id,
                "sub": v.sub,
                "sig": v.sig,
                "detail": v.detail,
                "seed": seed,
                "tier": tier.name(),
                "case": v.case,
            });
            let _ = std::fs::write(&path, serde_json::to_string_pretty(&doc).unwrap());
            println!("    {} -- {}", v.sig, v.detail);
            println!("VIOLATION property={} replay={}", id, path.display());
            violations.push(v.clone());
        }
    }
    for v in &canary_dead {
        let _ = std::fs::create_dir_all(&fail_dir);
        let path = fail_dir.join(format!("{}-{}.json", sanitize(&v.sig), seed));
        let doc = json!({"property": id, "sub": v.sub, "sig": v.sig, "detail": v.detail, "seed": seed, "tier": tier.name(), "case": v.case});
        let _ = std::fs::write(&path, serde_json::to_string_pretty(&doc).unwrap());
        println!("  {:<34} not run in-process: 1 VIOLATION(S)", v.sub);
        println!("    {} -- {}", v.sig, v.detail);
        println!("VIOLATION property={} replay={}", id, path.display());
        violations.push(v.clone());
    }
    // all samples beyond the first of each sub, up to a cap
    if samples.len() < 8 {
        for (_si, rep) in per_sub.iter() {
            for s in rep.samples.iter().skip(1).take(1) {
                if samples.len() < 12 {
                    samples.push(json!({"sub": rep.name, "case": s}));
                }
            }
        }
    }
    samples.truncate(24);
    for (sig, n) in &known_hit {
        if let Some(k) = known.iter().find(|k| &k.signature == sig) {
            println!("KNOWN-FINDING: property={} {} [signature {}, {} generated cases excluded]", id, k.what, sig, n);
        }
    }
    // known entries that were not hit in this run are still listed (one line each), as the
    // interface asks for a line per listed finding
    for k in &known {
        if !known_hit.contains_key(&k.signature) {
            println!("KNOWN-FINDING: property={} {} [signature {}, not reached by this run]", id, k.what, k.signature);
        }
    }

    let wall = start.elapsed().as_secs_f64();
    // statistics of the coverage-guided campaign that ./check ran before this binary (thorough tier)
    let fuzz_stats: Value = std::env::var("VERIF_FUZZ_STATS").ok().and_then(|p| std::fs::read_to_string(p).ok()).and_then(|t| serde_json::from_str(&t).ok()).unwrap_or(Value::Null);
    // coverage of a companion binary that ./check ran before this one (C07: the Polars cells)
    let extra_evidence: Value = std::env::var("VERIF_EXTRA_EVIDENCE").ok().and_then(|p| std::fs::read_to_string(p).ok()).and_then(|t| serde_json::from_str::<Value>(&t).ok()).map(|v| v["coverage"].clone()).unwrap_or(Value::Null);
    let ev = json!({
        "property_id": id,
        "tier": tier.name(),
        "seed": seed as i64,
        "level": "exploration",
        "coverage": {
            "evaluations": evaluations,
            "distinct_nontrivial": distinct,
            "rule": prop.rule,
            "samples": samples,
            "classes": classes,
            "subs": Value::Object(subs_json),
            "max_err_over_tol": max_ratio,
            "excluded_known": excluded_total,
            "replayed": replayed,
            "replay_failures": corpus_violations,
            "exhaustive": false,
            "exhaustive_subs": exhaustive_subs,
            "fuzz": fuzz_stats,
            "extra": extra_evidence,
        },
        "assumptions": prop.assumptions,
        "wall_s": wall,
        "violations": violations.len(),
    });
    let ev_dir = Path::new(&verif_root()).join("evidence");
    let _ = std::fs::create_dir_all(&ev_dir);
    let ev_path = match std::env::var("VERIF_EVIDENCE_PATH") {
        Ok(p) => PathBuf::from(p),
        Err(_) => ev_dir.join(format!("{}.json", id)),
    };
    if args.only.is_none() {
        if let Err(e) = std::fs::write(&ev_path, serde_json::to_string_pretty(&ev).unwrap()) {
            eprintln!("cannot write evidence: {}", e);
            std::process::exit(2);
        }
    }
    println!(
        "{} {} seed={} evaluations={} distinct_nontrivial={} violations={} wall={:.1}s",
        id,
        tier.name(),
        seed,
        evaluations,
        distinct,
        violations.len(),
        wall
    );
    std::process::exit(if violations.is_empty() { 0 } else { 1 });
}
