//! Generators (proptest strategies). No tevec imports here.
//!
//! Cases are generated as *raw* draws and mapped by pure functions into the logical case that the
//! checks consume (and that is serialised into replay files). Shrinking happens on the raw draws.

use proptest::collection::vec;
use proptest::prelude::*;
use serde::{Deserialize, Serialize};

use crate::backends::{Backend, OutKind};
use crate::engine::Tier;

/// Element type of the input container.
#[derive(Clone, Copy, Debug, PartialEq, Eq, Serialize, Deserialize)]
pub enum InT {
    F64,
    F32,
    I32,
    I64,
    OptF64,
    OptI32,
}

impl InT {
    pub fn nullable(self) -> bool {
        matches!(self, InT::F64 | InT::F32 | InT::OptF64 | InT::OptI32)
    }
    pub fn integer(self) -> bool {
        matches!(self, InT::I32 | InT::I64 | InT::OptI32)
    }
    pub const ALL: [InT; 6] = [InT::F64, InT::F32, InT::I32, InT::I64, InT::OptF64, InT::OptI32];
}

/// Element type of the output container.
#[derive(Clone, Copy, Debug, PartialEq, Eq, Serialize, Deserialize)]
pub enum OutT {
    F64,
    F32,
    OptF64,
    I32,
    OptI32,
}

impl OutT {
    pub fn integer(self) -> bool {
        matches!(self, OutT::I32 | OutT::OptI32)
    }
    /// can the output distinguish null from 0?
    pub fn has_null(self) -> bool {
        !matches!(self, OutT::I32)
    }
}

pub type Series = Vec<Option<f64>>;

#[derive(Clone, Debug, Serialize, Deserialize)]
pub struct RollCase {
    pub x: Series,
    pub w: usize,
    pub mp: Option<usize>,
    pub tin: InT,
    pub tout: OutT,
    /// value class label (for the evidence histogram)
    pub class: String,
    /// write into a caller-supplied buffer instead of returning
    pub out_buf: bool,
    /// extra parameter (fractional order d for fdiff)
    #[serde(default)]
    pub p: f64,
}

#[derive(Clone, Debug, Serialize, Deserialize)]
pub struct Roll2Case {
    pub x: Series,
    pub y: Series,
    pub w: usize,
    pub mp: Option<usize>,
    pub class: String,
    pub out_buf: bool,
}

// ---------------------------------------------------------------------------------------------
// raw draws

#[derive(Clone, Debug)]
pub struct RawSeries {
    pub raw: Vec<(i32, u8)>,
    pub class: u8,
    pub cparam: u8,
    pub nullpat: u8,
    pub nparam: u8,
}

pub const RAW_MAX: i32 = 1 << 20;

pub fn len_strategy(tier: Tier, max_quick: usize, max_thorough: usize) -> BoxedStrategy<usize> {
    match tier {
        Tier::Quick => prop_oneof![
            2 => 0usize..=2,
            5 => 3usize..=12,
            3 => 13usize..=max_quick.max(13),
        ]
        .boxed(),
        Tier::Thorough => prop_oneof![
            2 => 0usize..=2,
            5 => 3usize..=12,
            4 => 13usize..=48,
            2 => 49usize..=max_thorough.max(49),
        ]
        .boxed(),
    }
}

pub const ALL_CLASSES: &[u8] = &[0, 1, 2, 3, 4, 5, 6, 7, 8, 9, 11, 12];
/// tie-heavy classes for the extrema / rank family
/// ALL_CLASSES plus the price-like class 13 (twice): used where the oracle's tolerance follows the history
/// magnitude, so that a level / spread ratio of 1e3..1e7 is meaningful
pub const PRICE_CLASSES: &[u8] = &[0, 1, 2, 3, 4, 5, 6, 7, 11, 12, 13, 13, 13];
pub const TIE_CLASSES: &[u8] = &[0, 10, 1, 4, 5, 5, 6, 6, 8, 2, 11];

pub fn raw_series(len: impl Strategy<Value = usize> + 'static) -> impl Strategy<Value = RawSeries> {
    raw_series_of(len, ALL_CLASSES)
}

pub fn raw_series_of(len: impl Strategy<Value = usize> + 'static, classes: &'static [u8]) -> impl Strategy<Value = RawSeries> {
    (len, (0..classes.len()).prop_map(move |i| classes[i]), any::<u8>(), 0u8..9, any::<u8>()).prop_flat_map(|(n, class, cparam, nullpat, nparam)| {
        vec((-RAW_MAX..=RAW_MAX, any::<u8>()), n).prop_map(move |raw| RawSeries {
            raw,
            class,
            cparam,
            nullpat,
            nparam,
        })
    })
}

pub fn class_name(class: u8) -> &'static str {
    match class {
        0 => "tiny_alphabet",
        1 => "small_int",
        2 => "dyadic",
        3 => "float",
        4 => "constant",
        5 => "monotone_runs",
        6 => "plateaus",
        7 => "float_offset",
        8 => "tiny_alphabet",
        10 => "ulp_neighbours",
        11 => "medium_int",
        12 => "scale_shift",
        13 => "price_ticks",
        _ => "small_int",
    }
}

const SCALES: [f64; 11] = [1e-8, 1e-5, 1e-4, 1e-3, 0.1, 1.0, 3.7, 12.5, 1e3, 1.2345e4, 1e6];

/// Pure mapping raw -> values (all finite). `integer`: only integer values; `f32ok`: values exactly
/// representable in f32 with exact small sums.
pub fn values_of(rs: &RawSeries, integer: bool, f32ok: bool) -> (Vec<f64>, &'static str) {
    let n = rs.raw.len();
    let mut class = rs.class;
    if (integer || f32ok) && (class == 3 || class == 7) {
        class = if integer { 1 } else { 2 };
    }
    if integer && class == 2 {
        class = 1;
    }
    if class == 10 && (integer || f32ok) {
        class = 0;
    }
    if class == 12 && (integer || f32ok) {
        class = 1;
    }
    if class == 13 && (integer || f32ok) {
        class = 1;
    }
    if class == 11 && f32ok {
        // f32 inputs are kept to values whose sums are exact in f32 (the library accumulates some
        // statistics in the element type; that rounding is not what the checks are about)
        class = 1;
    }
    let mut out = Vec::with_capacity(n);
    match class {
        0 | 8 => {
            let k = 2 + (rs.cparam % 3) as i32; // 2..=4 distinct values
            for (a, _) in &rs.raw {
                out.push((a.rem_euclid(k) - 1) as f64);
            }
        },
        1 | 9 => {
            for (a, _) in &rs.raw {
                out.push((a % 1001) as f64);
            }
        },
        2 => {
            for (a, _) in &rs.raw {
                out.push((a % 8193) as f64 / 8.0);
            }
        },
        12 => {
            // regime changes: the magnitude of the data changes by orders of magnitude from one segment
            // to the next (starting tiny), e.g. a non-constant stretch whose variance is below the 1e-14
            // floor followed by ordinary data
            const SEG: [f64; 6] = [1e-8, 1e-7, 1e-6, 1e-5, 1e-3, 1.0];
            let mut k = (rs.cparam % 2) as usize;
            let change = 12 + (rs.cparam / 2 % 24);
            for (i, (a, r)) in rs.raw.iter().enumerate() {
                if i > 0 && *r < change {
                    k = (k + 1 + (a.rem_euclid(2)) as usize) % SEG.len();
                }
                out.push(*a as f64 / RAW_MAX as f64 * SEG[k]);
            }
        },
        13 => {
            // price-like data: a walk in ticks around a level that is thousands to millions of ticks away
            // from zero (level / spread ratio 1e3..1e7), with occasional jumps to another level (a much
            // lower one, zero, or the mirrored one) - the shape of a quoted price series, and the regime in
            // which raw power sums cancel and any re-centring / compensation logic is exercised
            const LEVELS: [f64; 5] = [10.0, 100.0, 1000.0, 2500.0, 50000.0];
            const TICKS: [f64; 3] = [0.01, 0.05, 1.0];
            let level = LEVELS[(rs.cparam % 5) as usize];
            let tick = TICKS[(rs.cparam / 5 % 3) as usize];
            let change = 4 + (rs.cparam / 15 % 16);
            let mut base = level;
            let mut tk = tick;
            let mut pos = 0i64;
            for (i, (a, r)) in rs.raw.iter().enumerate() {
                if i > 0 && *r < change {
                    // a jump changes the level and sometimes the spread (a well-conditioned stretch after
                    // an ill-conditioned one)
                    (base, tk) = match a.rem_euclid(6) {
                        0 => (level, tick),
                        1 => (level / 100.0, tick),
                        2 => (0.0, tick),
                        3 => (-level, tick),
                        4 => (level, tick * 1000.0),
                        _ => (0.0, tick * 1000.0),
                    };
                    pos = 0;
                }
                pos += (a.rem_euclid(7) - 3) as i64;
                out.push(base + pos as f64 * tk);
            }
        },
        11 => {
            // integers up to +-4.2e6: every window / series sum generated here (<= 400 elements) fits an
            // i32, but squares and products do not (a statistic that multiplies in the element type
            // instead of f64 overflows for integers and loses precision for f32)
            for (a, _) in &rs.raw {
                out.push((*a as i64 * 4) as f64);
            }
        },
        10 => {
            // a handful of adjacent floats: ties and spreads of a few ulps (around 1, or denormal-free tiny)
            let base = [1.0f64, -1.0, 1e-15, 1024.0][(rs.cparam % 4) as usize];
            let k = 2 + (rs.cparam / 4 % 3) as i32;
            for (a, _) in &rs.raw {
                out.push(f64::from_bits((base.to_bits() as i64 + a.rem_euclid(k) as i64) as u64));
            }
        },
        3 => {
            let s = SCALES[(rs.cparam % 11) as usize];
            for (a, _) in &rs.raw {
                out.push(*a as f64 / RAW_MAX as f64 * s);
            }
        },
        7 => {
            let s = SCALES[(rs.cparam % 11) as usize];
            let off = ((rs.cparam / 11) as f64 - 11.5) / 1.15 * s; // |off/s| <= 10
            for (a, _) in &rs.raw {
                out.push(off + *a as f64 / RAW_MAX as f64 * s);
            }
        },
        4 => {
            let c = if integer || f32ok {
                (rs.cparam as i32 - 128) as f64
            } else {
                (rs.cparam as f64 - 128.0) * 1.1
            };
            for _ in &rs.raw {
                out.push(c);
            }
        },
        5 => {
            // monotone runs: direction flips when the null-roll byte is small
            let mut cur = 0.0f64;
            let mut dir = 1.0;
            let flip = 8 + (rs.cparam % 24);
            for (a, r) in &rs.raw {
                if *r < flip {
                    dir = -dir;
                }
                cur += dir * (1 + a.rem_euclid(4)) as f64;
                out.push(cur);
            }
        },
        _ => {
            // plateaus: the value changes only occasionally
            let mut cur = 0.0f64;
            let change = 32 + (rs.cparam % 64);
            for (a, r) in &rs.raw {
                if *r < change {
                    cur = (a % 17) as f64;
                }
                out.push(cur);
            }
        },
    }
    if f32ok {
        for v in out.iter_mut() {
            *v = *v as f32 as f64;
        }
    }
    (out, class_name(class))
}

/// Pure mapping raw -> null mask (true = null).
pub fn nulls_of(rs: &RawSeries) -> (Vec<bool>, &'static str) {
    let n = rs.raw.len();
    let mut m = vec![false; n];
    let name;
    match rs.nullpat {
        0 | 1 => name = "no_nulls",
        2 => {
            name = "iid_nulls";
            let p = [26u8, 77, 154][(rs.nparam % 3) as usize];
            for (i, (_, r)) in rs.raw.iter().enumerate() {
                m[i] = r.wrapping_mul(167).wrapping_add(13) < p;
            }
        },
        3 => {
            name = "null_blocks";
            let bl = 1 + (rs.nparam % 7) as usize;
            let mut i = 0;
            let mut null_block = rs.nparam & 0x80 != 0;
            while i < n {
                let l = bl + (rs.raw[i].1 % 3) as usize;
                if null_block {
                    for j in i..(i + l).min(n) {
                        m[j] = true;
                    }
                }
                null_block = !null_block;
                i += l;
            }
        },
        4 => {
            name = "leading_nulls";
            let k = (rs.nparam as usize % 6).min(n);
            for j in 0..k {
                m[j] = true;
            }
        },
        5 => {
            name = "trailing_nulls";
            let k = (rs.nparam as usize % 6).min(n);
            for j in n - k..n {
                m[j] = true;
            }
        },
        6 => {
            name = "alternating_nulls";
            for j in 0..n {
                m[j] = (j + rs.nparam as usize) % 2 == 0;
            }
        },
        7 => {
            name = "all_null";
            for j in 0..n {
                m[j] = true;
            }
        },
        _ => {
            name = "sparse_valid";
            for (i, (_, r)) in rs.raw.iter().enumerate() {
                m[i] = r.wrapping_mul(91).wrapping_add(rs.nparam) > 40;
            }
        },
    }
    (m, name)
}

pub fn series_of(rs: &RawSeries, tin: InT) -> (Series, String) {
    let (vals, cname) = values_of(rs, tin.integer(), tin == InT::F32);
    if tin.nullable() {
        let (m, nname) = nulls_of(rs);
        (
            vals.iter().zip(m.iter()).map(|(v, n)| if *n { None } else { Some(*v) }).collect(),
            format!("{}+{}", cname, nname),
        )
    } else {
        (vals.into_iter().map(Some).collect(), format!("{}+no_nulls", cname))
    }
}

/// window from (mode, sel): critical sizes around len plus uniform 1..=len+2
pub fn window_of(len: usize, mode: u8, sel: u16, min_w: usize) -> usize {
    let w = match mode % 10 {
        0 => 1,
        1 => 2,
        2 => 3,
        3 => len.saturating_sub(1),
        4 => len,
        5 => len + 1,
        6 => len + 2,
        _ => 1 + ((sel as usize) * (len + 2) >> 16),
    };
    w.max(min_w).max(1)
}

/// min_periods from (mode, sel): omitted (1/4) or explicit 0..=w with weight on the edges
pub fn mp_of(w: usize, mode: u8, sel: u16) -> Option<usize> {
    match mode % 12 {
        0 | 1 | 2 => None,
        3 => Some(0),
        4 => Some(1.min(w)),
        5 => Some(2.min(w)),
        6 => Some(3.min(w)),
        7 => Some(w.saturating_sub(1)),
        8 => Some(w),
        _ => Some((sel as usize) * (w + 1) >> 16),
    }
}

pub fn in_types(kinds: &'static [InT]) -> impl Strategy<Value = InT> {
    (0..kinds.len()).prop_map(move |i| kinds[i])
}

pub fn out_types(kinds: &'static [OutT]) -> impl Strategy<Value = OutT> {
    (0..kinds.len()).prop_map(move |i| kinds[i])
}

/// Single-series rolling case.
pub fn roll_case(
    tier: Tier,
    ins: &'static [InT],
    outs: &'static [OutT],
    max_quick: usize,
    max_thorough: usize,
    min_w: usize,
) -> impl Strategy<Value = RollCase> {
    roll_case_of(tier, ins, outs, max_quick, max_thorough, min_w, ALL_CLASSES)
}

pub fn roll_case_of(
    tier: Tier,
    ins: &'static [InT],
    outs: &'static [OutT],
    max_quick: usize,
    max_thorough: usize,
    min_w: usize,
    classes: &'static [u8],
) -> impl Strategy<Value = RollCase> {
    (
        raw_series_of(len_strategy(tier, max_quick, max_thorough), classes),
        in_types(ins),
        out_types(outs),
        any::<u8>(),
        any::<u16>(),
        any::<u8>(),
        any::<u16>(),
        any::<bool>(),
    )
        .prop_map(move |(rs, tin, tout, wm, ws, mm, ms, out_buf)| {
            let (x, class) = series_of(&rs, tin);
            let w = window_of(x.len(), wm, ws, min_w);
            let mp = mp_of(w, mm, ms);
            RollCase {
                x,
                w,
                mp,
                tin,
                tout,
                class,
                out_buf,
                p: 0.0,
            }
        })
}

/// Long-history variant: len 2000..=max, w <= 64.
pub fn roll_case_long(ins: &'static [InT], max_len: usize, min_w: usize) -> impl Strategy<Value = RollCase> {
    roll_case_long_of(ins, max_len, min_w, ALL_CLASSES)
}

pub fn roll_case_long_of(ins: &'static [InT], max_len: usize, min_w: usize, classes: &'static [u8]) -> impl Strategy<Value = RollCase> {
    // windows up to 64 mostly; one case in five uses a window of several hundred elements (state that
    // only goes wrong once hundreds of observations are inside one window)
    (raw_series_of(2000usize..=max_len, classes), in_types(ins), prop_oneof![4 => 1usize..=64, 1 => 65usize..=700], any::<u8>(), any::<u16>()).prop_map(move |(rs, tin, w, mm, ms)| {
        let (x, class) = series_of(&rs, tin);
        let w = w.max(min_w);
        let mp = mp_of(w, mm, ms);
        RollCase {
            x,
            w,
            mp,
            tin,
            tout: OutT::F64,
            class: format!("long+{}", class),
            out_buf: false,
            p: 0.0,
        }
    })
}

#[derive(Clone, Debug)]
pub struct RawPair {
    pub a: RawSeries,
    pub b: RawSeries,
    pub rel: u8,
}

pub fn raw_pair(len: impl Strategy<Value = usize> + 'static) -> impl Strategy<Value = RawPair> {
    let cls = || (0..ALL_CLASSES.len()).prop_map(|i| ALL_CLASSES[i]);
    (len, (cls(), any::<u8>(), 0u8..9, any::<u8>()), (cls(), any::<u8>(), 0u8..9, any::<u8>()), 0u8..8).prop_flat_map(
        |(n, ca, cb, rel)| {
            (vec((-RAW_MAX..=RAW_MAX, any::<u8>()), n), vec((-RAW_MAX..=RAW_MAX, any::<u8>()), n)).prop_map(move |(ra, rb)| RawPair {
                a: RawSeries {
                    raw: ra,
                    class: ca.0,
                    cparam: ca.1,
                    nullpat: ca.2,
                    nparam: ca.3,
                },
                b: RawSeries {
                    raw: rb,
                    class: cb.0,
                    cparam: cb.1,
                    nullpat: cb.2,
                    nparam: cb.3,
                },
                rel,
            })
        },
    )
}

/// Pair of series (y regressed on x for the regx family; independent null patterns).
pub fn pair_of(rp: &RawPair) -> (Series, Series, String) {
    let (mut va, ca) = values_of(&rp.a, false, false);
    let (vb, cb) = values_of(&rp.b, false, false);
    let (ma, na) = nulls_of(&rp.a);
    let (mb, nb) = nulls_of(&rp.b);
    let mut rel = "independent";
    match rp.rel {
        0 => {
            // exactly collinear on dyadics/integers: a = 2 + 3 b (b made dyadic)
            rel = "collinear";
            let (vb2, _) = values_of(
                &RawSeries {
                    class: 2,
                    ..rp.b.clone()
                },
                false,
                false,
            );
            let a2: Vec<f64> = vb2.iter().map(|b| 2.0 + 3.0 * b).collect();
            let x: Series = a2.iter().zip(ma.iter()).map(|(v, n)| if *n { None } else { Some(*v) }).collect();
            let y: Series = vb2.iter().zip(mb.iter()).map(|(v, n)| if *n { None } else { Some(*v) }).collect();
            return (x, y, format!("{}:{}+{}/{}", rel, "dyadic", na, nb));
        },
        2 if rp.a.class == 3 || rp.a.class == 7 => {
            // both series of the first one's float class and scale (e.g. two small-return series)
            rel = "common_scale";
            let (vb2, _) = values_of(
                &RawSeries {
                    class: rp.a.class,
                    cparam: rp.a.cparam,
                    ..rp.b.clone()
                },
                false,
                false,
            );
            let x: Series = va.iter().zip(ma.iter()).map(|(v, n)| if *n { None } else { Some(*v) }).collect();
            let y: Series = vb2.iter().zip(mb.iter()).map(|(v, n)| if *n { None } else { Some(*v) }).collect();
            return (x, y, format!("{}:{}/{}+{}/{}", rel, ca, ca, na, nb));
        },
        1 => {
            rel = "noisy_linear";
            for (a, b) in va.iter_mut().zip(vb.iter()) {
                *a = 0.5 * *b + *a * 0.25;
            }
        },
        _ => {},
    }
    let x: Series = va.iter().zip(ma.iter()).map(|(v, n)| if *n { None } else { Some(*v) }).collect();
    let y: Series = vb.iter().zip(mb.iter()).map(|(v, n)| if *n { None } else { Some(*v) }).collect();
    (x, y, format!("{}:{}/{}+{}/{}", rel, ca, cb, na, nb))
}

pub fn roll2_case(tier: Tier, max_quick: usize, max_thorough: usize, min_w: usize) -> impl Strategy<Value = Roll2Case> {
    (
        raw_pair(len_strategy(tier, max_quick, max_thorough)),
        any::<u8>(),
        any::<u16>(),
        any::<u8>(),
        any::<u16>(),
        any::<bool>(),
    )
        .prop_map(move |(rp, wm, ws, mm, ms, out_buf)| {
            let (x, y, class) = pair_of(&rp);
            let w = window_of(x.len(), wm, ws, min_w);
            let mp = mp_of(w, mm, ms);
            Roll2Case {
                x,
                y,
                w,
                mp,
                class,
                out_buf,
            }
        })
}

pub fn roll2_case_long(max_len: usize, min_w: usize) -> impl Strategy<Value = Roll2Case> {
    (raw_pair(2000usize..=max_len), prop_oneof![4 => 2usize..=64, 1 => 65usize..=700], any::<u8>(), any::<u16>()).prop_map(move |(rp, w, mm, ms)| {
        let (x, y, class) = pair_of(&rp);
        let w = w.max(min_w);
        let mp = mp_of(w, mm, ms);
        Roll2Case {
            x,
            y,
            w,
            mp,
            class: format!("long+{}", class),
            out_buf: false,
        }
    })
}

/// monotone index mapping: sel in 0..=65535 -> 0..n (n excluded), shrinks toward 0
pub fn idx(sel: u16, n: usize) -> usize {
    if n == 0 {
        0
    } else {
        ((sel as usize) * n) >> 16
    }
}


/// Rolling case placed on a backend / output container cell of the matrix.
#[derive(Clone, Debug, Serialize, Deserialize)]
pub struct MatCase {
    pub c: RollCase,
    pub bk: Backend,
    pub ok: OutKind,
}

#[derive(Clone, Debug, Serialize, Deserialize)]
pub struct Mat2Case {
    pub c: Roll2Case,
    pub bk: Backend,
    pub bk2: Backend,
    pub ok: OutKind,
}

pub fn backend_strategy() -> impl Strategy<Value = Backend> {
    (any::<u8>(), any::<u8>()).prop_map(|(a, b)| Backend::from_sel(a, b))
}

pub fn outkind_strategy() -> impl Strategy<Value = OutKind> {
    (0usize..3).prop_map(|i| OutKind::ALL[i])
}

pub fn mat_case(base: impl Strategy<Value = RollCase>) -> impl Strategy<Value = MatCase> {
    (base, backend_strategy(), outkind_strategy()).prop_map(|(c, bk, ok)| MatCase { c, bk, ok })
}

pub fn mat2_case(base: impl Strategy<Value = Roll2Case>) -> impl Strategy<Value = Mat2Case> {
    (base, backend_strategy(), backend_strategy(), outkind_strategy()).prop_map(|(c, bk, bk2, ok)| Mat2Case { c, bk, bk2, ok })
}

/// classes whose window variances are exactly 0 or far above the EPS floor
pub const EXACT_CLASSES: &[u8] = &[0, 1, 2, 4, 5, 6, 8, 9];
