//! Reference models for the rolling family, written from the definitions (O(n*w)), together with
//! the condition-aware tolerance of DESIGN 5.9. No tevec imports here.

use serde::{Deserialize, Serialize};

use crate::gen::{OutT, Series};

pub const U: f64 = 1.1102230246251565e-16; // 2^-53
pub const K_TOL: f64 = 128.0;
pub const EPS: f64 = 1e-14; // the library's variance floor (DESIGN 5.6)
pub const TINY: f64 = 1e-300;

#[derive(Clone, Copy, Debug, PartialEq, Serialize, Deserialize)]
pub enum Stat {
    Sum,
    Mean,
    Ewm,
    Wma,
    Std,
    Var,
    Skew,
    Kurt,
    Fdiff(f64),
    Min,
    Max,
    ArgMin,
    ArgMax,
    Rank { pct: bool, rev: bool },
    MinMaxNorm,
    ZScore,
    Reg,
    Tsf,
    RegSlope,
    RegIntercept,
    RegResidMean,
}

impl Stat {
    /// intrinsic minimum number of observations
    pub fn k(self) -> usize {
        use Stat::*;
        match self {
            Sum | Fdiff(_) => 0,
            Mean | Ewm | Wma | Min | Max | ArgMin | ArgMax | Rank { .. } | MinMaxNorm => 1,
            Std | Var | ZScore | Reg | Tsf | RegSlope | RegIntercept | RegResidMean => 2,
            Skew => 3,
            Kurt => 4,
        }
    }
    pub fn cmp_family(self) -> bool {
        matches!(self, Stat::Min | Stat::Max | Stat::ArgMin | Stat::ArgMax | Stat::Rank { .. })
    }
    pub fn exact(self) -> bool {
        matches!(self, Stat::Min | Stat::Max | Stat::ArgMin | Stat::ArgMax | Stat::Rank { .. } | Stat::MinMaxNorm)
    }
    pub fn name(self) -> String {
        use Stat::*;
        match self {
            Sum => "sum".into(),
            Mean => "mean".into(),
            Ewm => "ewm".into(),
            Wma => "wma".into(),
            Std => "std".into(),
            Var => "var".into(),
            Skew => "skew".into(),
            Kurt => "kurt".into(),
            Fdiff(_) => "fdiff".into(),
            Min => "min".into(),
            Max => "max".into(),
            ArgMin => "argmin".into(),
            ArgMax => "argmax".into(),
            Rank { pct, rev } => format!("rank{}{}", if pct { "_pct" } else { "" }, if rev { "_rev" } else { "" }),
            MinMaxNorm => "minmaxnorm".into(),
            ZScore => "zscore".into(),
            Reg => "reg".into(),
            Tsf => "tsf".into(),
            RegSlope => "reg_slope".into(),
            RegIntercept => "reg_intercept".into(),
            RegResidMean => "reg_resid_mean".into(),
        }
    }
}

#[derive(Clone, Copy, Debug, PartialEq)]
pub enum Tri {
    Yes,
    No,
    Any,
}

/// What the model expects at one position.
#[derive(Clone, Debug)]
pub struct Exp {
    /// must the output be null?
    pub null: Tri,
    /// acceptable (value, tol) pairs when non-null; empty = any value
    pub alts: Vec<(f64, f64)>,
    /// labels
    pub band: bool,
    pub ill: bool,
}

impl Exp {
    pub fn null() -> Self {
        Exp {
            null: Tri::Yes,
            alts: vec![],
            band: false,
            ill: false,
        }
    }
    pub fn val(v: f64, tol: f64) -> Self {
        Exp {
            null: Tri::No,
            alts: vec![(v, tol)],
            band: false,
            ill: false,
        }
    }
    pub fn unspec() -> Self {
        Exp {
            null: Tri::Any,
            alts: vec![],
            band: false,
            ill: true,
        }
    }
    pub fn either(a: (f64, f64), b: (f64, f64)) -> Self {
        Exp {
            null: Tri::No,
            alts: vec![a, b],
            band: true,
            ill: false,
        }
    }
}

pub fn min_periods_eff(w: usize, mp: Option<usize>) -> usize {
    mp.unwrap_or(w / 2).min(w)
}

/// window bounds of position i
#[inline]
pub fn lo_of(i: usize, w: usize) -> usize {
    (i + 1).saturating_sub(w)
}

pub fn prefix_max_abs(x: &Series) -> Vec<f64> {
    let mut m = 0.0f64;
    x.iter()
        .map(|v| {
            if let Some(v) = v {
                m = m.max(v.abs());
            }
            m
        })
        .collect()
}

#[inline]
pub fn eps_h(i: usize, w: usize) -> f64 {
    K_TOL * U * ((i + 1 + w) as f64)
}

pub struct Moments {
    pub n: usize,
    pub mean: f64,
    pub m2: f64, // population central moments
    pub m3: f64,
    pub m4: f64,
}

pub fn moments(v: &[f64]) -> Moments {
    let n = v.len();
    if n == 0 {
        return Moments {
            n,
            mean: f64::NAN,
            m2: f64::NAN,
            m3: f64::NAN,
            m4: f64::NAN,
        };
    }
    let nf = n as f64;
    // compensated mean: mean of deviations from the first pass mean
    let m0 = v.iter().sum::<f64>() / nf;
    let corr = v.iter().map(|x| x - m0).sum::<f64>() / nf;
    let mean = m0 + corr;
    let (mut s2, mut s3, mut s4) = (0.0, 0.0, 0.0);
    for x in v {
        let d = x - mean;
        let d2 = d * d;
        s2 += d2;
        s3 += d2 * d;
        s4 += d2 * d2;
    }
    Moments {
        n,
        mean,
        m2: s2 / nf,
        m3: s3 / nf,
        m4: s4 / nf,
    }
}

fn std_band(vs: f64, vp: f64, tol_var: f64, sqrt: bool) -> Exp {
    // population variance vp decides the EPS floor; vs is the sample variance
    let conv = |v: f64, t: f64| -> (f64, f64) {
        if sqrt {
            let s = v.max(0.0).sqrt();
            let hi = (v + t).max(0.0).sqrt();
            let lo = (v - t).max(0.0).sqrt();
            (s, (hi - lo).max(t.min(1.0) * 1e-3).max(TINY))
        } else {
            (v, t)
        }
    };
    if vp > EPS + tol_var {
        let (v, t) = conv(vs, tol_var);
        Exp::val(v, t)
    } else if vp < EPS - tol_var {
        Exp::val(0.0, 0.0)
    } else {
        let (v, t) = conv(vs, tol_var);
        Exp::either((0.0, 0.0), (v, t))
    }
}

/// binomial fractional-difference weights: w_k = (-1)^k C(d,k), k = 0 most recent
pub fn fdiff_weights(d: f64, n: usize) -> Vec<f64> {
    let mut w = Vec::with_capacity(n);
    let mut c = 1.0f64;
    for k in 0..n {
        if k > 0 {
            c = -c * (d - k as f64 + 1.0) / k as f64;
        }
        w.push(c);
    }
    w
}

/// Expected output of `stat` for every position of `x` (single-series statistics).
/// `len_for_clamp`: the series length (extrema family clamps the window to it).
pub fn expect_series(stat: Stat, x: &Series, w: usize, mp: Option<usize>) -> Vec<Exp> {
    expect_series_at(stat, x, w, mp, None)
}

/// As `expect_series`, but only the listed positions are evaluated (all others are left unspecified):
/// for series of tens of thousands of elements with windows of the same order, where the from-scratch
/// evaluation of every position would be quadratic.
pub fn expect_series_at(stat: Stat, x: &Series, w: usize, mp: Option<usize>, positions: Option<&[usize]>) -> Vec<Exp> {
    let len = x.len();
    let pm = prefix_max_abs(x);
    let mp_eff = min_periods_eff(w, mp);
    let need = mp_eff.max(stat.k());
    let mut out = Vec::with_capacity(len);
    let mut vals: Vec<f64> = Vec::with_capacity(w.min(len) + 1);
    for i in 0..len {
        if let Some(ps) = positions {
            if !ps.contains(&i) {
                out.push(Exp::unspec());
                continue;
            }
        }
        let lo = lo_of(i, w);
        vals.clear();
        for j in lo..=i {
            if let Some(v) = x[j] {
                vals.push(v);
            }
        }
        let n = vals.len();
        if stat.cmp_family() && mp.is_none() && len < w {
            // DESIGN 5.3: omitted min_periods of the extrema family is only specified for len >= w
            out.push(Exp::unspec());
            continue;
        }
        if n < need {
            out.push(Exp::null());
            continue;
        }
        let m_hist = pm[i];
        let eh = eps_h(i, w) * (w.min(i + 1) as f64) / (n.max(1) as f64);
        let e = match stat {
            Stat::Sum => {
                let s: f64 = vals.iter().sum();
                Exp::val(s, eps_h(i, w) * (w.min(i + 1) as f64) * m_hist + TINY)
            },
            Stat::Mean => {
                let m = moments(&vals);
                Exp::val(m.mean, eh * m_hist * 2.0 + TINY)
            },
            Stat::Ewm => {
                let alpha = 2.0 / w as f64;
                let oma = 1.0 - alpha;
                let (mut num, mut den) = (0.0, 0.0);
                let mut wt = 1.0;
                let mut den_abs = 0.0;
                for v in vals.iter().rev() {
                    num += wt * v;
                    den += wt;
                    den_abs += wt.abs();
                    wt *= oma;
                }
                if den == 0.0 {
                    Exp::unspec()
                } else {
                    Exp::val(num / den, eps_h(i, w) * m_hist * (w as f64).max(den_abs) / den.abs() * 2.0 + TINY)
                }
            },
            Stat::Wma => {
                let mut num = 0.0;
                for (k, v) in vals.iter().enumerate() {
                    num += (k + 1) as f64 * v;
                }
                let div = (n * (n + 1) / 2) as f64;
                let ww = w.min(i + 1) as f64;
                Exp::val(num / div, eps_h(i, w) * m_hist * ww * ww / div + TINY)
            },
            Stat::Var | Stat::Std => {
                let m = moments(&vals);
                let nf = n as f64;
                let vs = m.m2 * nf / (nf - 1.0);
                let tol_var = eh * m_hist * m_hist * 4.0 + TINY;
                std_band(vs, m.m2, tol_var, stat == Stat::Std)
            },
            Stat::Skew => {
                let m = moments(&vals);
                let nf = n as f64;
                let tol_var = eh * m_hist * m_hist * 4.0 + TINY;
                let regular = || {
                    let sd = m.m2.sqrt();
                    let g1 = m.m3 / (sd * sd * sd);
                    let adj = (nf * (nf - 1.0)).sqrt() / (nf - 2.0);
                    let r = m_hist / sd;
                    let tol = adj * eh * (3.0 * r.powi(5) + 6.0 * r.powi(3) + 3.0 * r) + TINY;
                    (adj * g1, tol, r)
                };
                if m.m2 > EPS + tol_var {
                    let (v, t, r) = regular();
                    let mut e = Exp::val(v, t);
                    e.ill = r > 1e3;
                    e
                } else if m.m2 < EPS - tol_var {
                    Exp::val(0.0, 0.0)
                } else {
                    // the one-pass variance estimate may land on either side of the floor and the
                    // statistic is numerically undefined there: only non-nullness is required
                    let _ = regular;
                    Exp {
                        null: Tri::No,
                        alts: vec![],
                        band: true,
                        ill: true,
                    }
                }
            },
            Stat::Kurt => {
                let m = moments(&vals);
                let nf = n as f64;
                let tol_var = eh * m_hist * m_hist * 4.0 + TINY;
                let regular = || {
                    let g2 = m.m4 / (m.m2 * m.m2);
                    let scale = (nf * nf - 1.0) / ((nf - 2.0) * (nf - 3.0));
                    let v = ((nf * nf - 1.0) * g2 - 3.0 * (nf - 1.0) * (nf - 1.0)) / ((nf - 2.0) * (nf - 3.0));
                    let r = m_hist / m.m2.sqrt();
                    let tol = scale * eh * (8.0 * r.powi(4) + 6.0 * r * r) * (4.0 + 4.0 * r * r) + TINY;
                    (v, tol, r)
                };
                if m.m2 > EPS + tol_var {
                    let (v, t, r) = regular();
                    let mut e = Exp::val(v, t);
                    e.ill = r > 1e3;
                    e
                } else if m.m2 < EPS - tol_var {
                    Exp::val(0.0, 0.0)
                } else {
                    // the one-pass variance estimate may land on either side of the floor and the
                    // statistic is numerically undefined there: only non-nullness is required
                    let _ = regular;
                    Exp {
                        null: Tri::No,
                        alts: vec![],
                        band: true,
                        ill: true,
                    }
                }
            },
            Stat::Fdiff(d) => {
                let wt = fdiff_weights(d, n);
                let mut s = 0.0;
                let mut sa = 0.0;
                let mut sx = 0.0;
                for (k, v) in vals.iter().rev().enumerate() {
                    s += wt[k] * v;
                    sa += (wt[k] * v).abs();
                    sx += v.abs();
                }
                // the library's binomial coefficient (special-function code) carries an absolute
                // error of a few ulp of 1 for orders close to an integer
                Exp::val(s, 1e-9 * sa + 256.0 * U * sx + TINY)
            },
            Stat::Min => Exp::val(vals.iter().cloned().fold(f64::INFINITY, f64::min), 0.0),
            Stat::Max => Exp::val(vals.iter().cloned().fold(f64::NEG_INFINITY, f64::max), 0.0),
            Stat::ArgMin | Stat::ArgMax => {
                // most recent position holding the extreme, 1-based offset from the window start
                let mut best: Option<(f64, usize)> = None;
                for j in lo..=i {
                    if let Some(v) = x[j] {
                        let better = match best {
                            None => true,
                            Some((b, _)) => {
                                if stat == Stat::ArgMin {
                                    v <= b
                                } else {
                                    v >= b
                                }
                            },
                        };
                        if better {
                            best = Some((v, j));
                        }
                    }
                }
                match best {
                    Some((_, j)) => Exp::val((j - lo + 1) as f64, 0.0),
                    None => Exp::null(),
                }
            },
            Stat::Rank { pct, rev } => match x[i] {
                None => Exp::null(),
                Some(cur) => {
                    let less = vals.iter().filter(|v| **v < cur).count();
                    let eq = vals.iter().filter(|v| **v == cur).count(); // includes the current element
                    let rank = (less + 1) as f64;
                    let res = if !rev {
                        rank + 0.5 * (eq - 1) as f64
                    } else {
                        (n + 1) as f64 - rank - 0.5 * (eq - 1) as f64
                    };
                    Exp::val(if pct { res / n as f64 } else { res }, 0.0)
                },
            },
            Stat::MinMaxNorm => match x[i] {
                None => Exp::null(),
                Some(cur) => {
                    let mn = vals.iter().cloned().fold(f64::INFINITY, f64::min);
                    let mx = vals.iter().cloned().fold(f64::NEG_INFINITY, f64::max);
                    if mn == mx {
                        Exp::null()
                    } else {
                        let v = (cur - mn) / (mx - mn);
                        Exp::val(v, 4.0 * U * 2.0 * v.abs().max(f64::MIN_POSITIVE))
                    }
                },
            },
            Stat::ZScore => match x[i] {
                None => Exp::null(),
                Some(cur) => {
                    let m = moments(&vals);
                    let nf = n as f64;
                    let tol_var = eh * m_hist * m_hist * 4.0 + TINY;
                    if n < 2 || m.m2 < EPS - tol_var {
                        Exp::null()
                    } else {
                        let sd = (m.m2 * nf / (nf - 1.0)).sqrt();
                        let z = (cur - m.mean) / sd;
                        let r = m_hist / sd;
                        let tol = eh * 4.0 * (r + z.abs() * r * r) + 8.0 * U * z.abs() + TINY;
                        if m.m2 > EPS + tol_var {
                            let mut e = Exp::val(z, tol);
                            e.ill = r > 1e4;
                            e
                        } else {
                            Exp {
                                null: Tri::Any,
                                alts: vec![],
                                band: true,
                                ill: true,
                            }
                        }
                    }
                },
            },
            Stat::Reg | Stat::Tsf | Stat::RegSlope | Stat::RegIntercept | Stat::RegResidMean => {
                // OLS of the valid values on t = 1..n
                let nf = n as f64;
                let tm = (nf + 1.0) / 2.0;
                let m = moments(&vals);
                let mut sxy = 0.0;
                for (k, v) in vals.iter().enumerate() {
                    sxy += ((k + 1) as f64 - tm) * (v - m.mean);
                }
                let sxx = nf * (nf * nf - 1.0) / 12.0;
                let slope = sxy / sxx;
                let intercept = m.mean - slope * tm;
                let ehm = eh * m_hist;
                match stat {
                    Stat::RegSlope => Exp::val(slope, ehm * 16.0 / (nf - 1.0).max(1.0) + TINY),
                    Stat::RegIntercept => Exp::val(intercept, ehm * 32.0 + TINY),
                    Stat::Reg => Exp::val(intercept + slope * nf, ehm * 64.0 + TINY),
                    Stat::Tsf => Exp::val(intercept + slope * (nf + 1.0), ehm * 96.0 + TINY),
                    _ => {
                        let mut sse = 0.0;
                        let (mut sx2, mut sx, mut sxt) = (0.0, 0.0, 0.0);
                        for (k, v) in vals.iter().enumerate() {
                            let t = (k + 1) as f64;
                            let e = v - intercept - slope * t;
                            sse += e * e;
                            sx2 += v * v;
                            sx += v.abs();
                            sxt += (t * v).abs();
                        }
                        let st = nf * (nf + 1.0) / 2.0;
                        let stt = nf * (nf + 1.0) * (2.0 * nf + 1.0) / 6.0;
                        let a = intercept.abs() + ehm * 32.0;
                        let b = slope.abs() + ehm * 16.0;
                        // magnitudes from the history maximum: the running sums keep residues of
                        // what passed through them
                        let sx = sx.max(nf * m_hist);
                        let sx2 = sx2.max(nf * m_hist * m_hist);
                        let sxt = sxt.max(st * m_hist);
                        let mag = sx2 + 2.0 * a * sx + 2.0 * b * sxt + a * a * nf + 2.0 * a * b * st + b * b * stt;
                        // the implementation's alpha/beta errors enter the expanded square too
                        let tol = (eh * mag * 4.0
                            + 2.0 * (ehm * 32.0) * (sx + a * nf + b * st)
                            + 2.0 * (ehm * 16.0) * (sxt + a * st + b * stt))
                            / nf
                            + TINY;
                        Exp::val(sse / nf, tol)
                    },
                }
            },
        };
        out.push(e);
    }
    out
}

// ---------------------------------------------------------------------------------------------
// two-series statistics

#[derive(Clone, Copy, Debug, PartialEq, Serialize, Deserialize)]
pub enum Stat2 {
    Cov,
    Corr,
    RegxAlpha,
    RegxBeta,
    RegxResidMean,
    RegxResidStd,
    RegxResidSkew,
    RegxAllAlpha,
    RegxAllBeta,
    RegxAllSse,
}

impl Stat2 {
    pub fn k(self) -> usize {
        match self {
            Stat2::RegxResidSkew => 3,
            _ => 2,
        }
    }
    pub fn name(self) -> &'static str {
        match self {
            Stat2::Cov => "cov",
            Stat2::Corr => "corr",
            Stat2::RegxAlpha => "regx_alpha",
            Stat2::RegxBeta => "regx_beta",
            Stat2::RegxResidMean => "regx_resid_mean",
            Stat2::RegxResidStd => "regx_resid_std",
            Stat2::RegxResidSkew => "regx_resid_skew",
            Stat2::RegxAllAlpha => "regx_all.alpha",
            Stat2::RegxAllBeta => "regx_all.beta",
            Stat2::RegxAllSse => "regx_all.sse",
        }
    }
}

/// Expected output of a two-series statistic; `a` is the first (dependent) series, `b` the second
/// (regressor).
pub fn expect_series2(stat: Stat2, a: &Series, b: &Series, w: usize, mp: Option<usize>) -> Vec<Exp> {
    let len = a.len();
    assert_eq!(len, b.len());
    let pma = prefix_max_abs(a);
    let pmb = prefix_max_abs(b);
    let mp_eff = min_periods_eff(w, mp);
    let need = mp_eff.max(stat.k());
    let mut out = Vec::with_capacity(len);
    let mut va: Vec<f64> = vec![];
    let mut vb: Vec<f64> = vec![];
    for i in 0..len {
        let lo = lo_of(i, w);
        va.clear();
        vb.clear();
        for j in lo..=i {
            if let (Some(x), Some(y)) = (a[j], b[j]) {
                va.push(x);
                vb.push(y);
            }
        }
        let n = va.len();
        if n < need {
            out.push(Exp::null());
            continue;
        }
        let nf = n as f64;
        let (ma, mb) = (pma[i], pmb[i]);
        let eh = eps_h(i, w) * (w.min(i + 1) as f64) / nf;
        let mo_a = moments(&va);
        let mo_b = moments(&vb);
        let mut sab = 0.0;
        for k in 0..n {
            sab += (va[k] - mo_a.mean) * (vb[k] - mo_b.mean);
        }
        let cov_p = sab / nf;
        let e = match stat {
            Stat2::Cov => Exp::val(sab / (nf - 1.0), eh * 4.0 * ma * mb + TINY),
            Stat2::Corr => {
                let tva = eh * 4.0 * ma * ma + TINY;
                let tvb = eh * 4.0 * mb * mb + TINY;
                if mo_a.m2 < EPS - tva || mo_b.m2 < EPS - tvb {
                    Exp::null()
                } else {
                    let rho = cov_p / (mo_a.m2 * mo_b.m2).sqrt();
                    let (ra, rb) = (ma / mo_a.m2.sqrt(), mb / mo_b.m2.sqrt());
                    let tol = eh * 4.0 * (ra * rb + ra * ra + rb * rb) + 8.0 * U + TINY;
                    if mo_a.m2 > EPS + tva && mo_b.m2 > EPS + tvb {
                        let mut e = Exp::val(rho, tol);
                        e.ill = ra > 1e4 || rb > 1e4;
                        e
                    } else {
                        Exp {
                            null: Tri::Any,
                            alts: vec![],
                            band: true,
                            ill: true,
                        }
                    }
                }
            },
            _ => {
                // regression of a on b
                let vbp = mo_b.m2;
                if vbp == 0.0 || !(vbp > eh * 64.0 * mb * mb) {
                    // constant (or numerically constant) regressor: no defined regression
                    out.push(Exp::unspec());
                    continue;
                }
                let beta = cov_p / vbp;
                let alpha = mo_a.mean - beta * mo_b.mean;
                let d_beta = eh * 2.0 * (ma * mb + beta.abs() * mb * mb) / vbp;
                let d_alpha = eh * (ma + beta.abs() * mb) + d_beta * mb;
                // exact residuals
                let res: Vec<f64> = (0..n).map(|k| va[k] - alpha - beta * vb[k]).collect();
                let mo_e = moments(&res);
                let emax = res.iter().fold(0.0f64, |m, e| m.max(e.abs()));
                let delta = d_alpha + d_beta * mb + 4.0 * U * (ma + alpha.abs() + beta.abs() * mb);
                match stat {
                    Stat2::RegxAlpha | Stat2::RegxAllAlpha => Exp::val(alpha, d_alpha * 4.0 + TINY),
                    Stat2::RegxBeta | Stat2::RegxAllBeta => Exp::val(beta, d_beta * 4.0 + TINY),
                    Stat2::RegxResidMean => Exp::val(0.0, delta * 4.0 + TINY),
                    Stat2::RegxResidStd => {
                        let vs = mo_e.m2 * nf / (nf - 1.0);
                        let tol_var = 2.0 * (2.0 * mo_e.m2.sqrt() * delta + delta * delta) + 64.0 * U * nf * (emax + delta) * (emax + delta) + TINY;
                        std_band(vs, mo_e.m2, tol_var, true)
                    },
                    Stat2::RegxResidSkew => {
                        let tol_var = 2.0 * (2.0 * mo_e.m2.sqrt() * delta + delta * delta) + 64.0 * U * nf * (emax + delta) * (emax + delta) + TINY;
                        if mo_e.m2 < EPS - tol_var {
                            Exp::val(0.0, 0.0)
                        } else if mo_e.m2 == 0.0 {
                            // exact fit, but the implementation's residuals are rounding noise whose
                            // variance may exceed the floor: only non-nullness is required
                            Exp {
                                null: Tri::No,
                                alts: vec![],
                                band: true,
                                ill: true,
                            }
                        } else {
                            let sd = mo_e.m2.sqrt();
                            let g1 = mo_e.m3 / (sd * sd * sd);
                            let adj = (nf * (nf - 1.0)).sqrt() / (nf - 2.0);
                            let v = adj * g1;
                            let rel = delta / sd;
                            let r = emax / sd;
                            let tol = adj * (32.0 * rel * (1.0 + r * r * r) + 64.0 * U * nf * (3.0 * r.powi(5) + 6.0 * r.powi(3) + 3.0 * r)) + TINY;
                            if mo_e.m2 > EPS + tol_var && rel < 1e-3 {
                                Exp::val(v, tol)
                            } else {
                                Exp {
                                    null: Tri::No,
                                    alts: vec![],
                                    band: true,
                                    ill: true,
                                }
                            }
                        }
                    },
                    _ => {
                        // SSE as the implementation expands it: sum a^2 - alpha sum a - beta sum ab
                        let sse: f64 = res.iter().map(|e| e * e).sum();
                        let sa2: f64 = va.iter().map(|x| x * x).sum();
                        let sa: f64 = va.iter().map(|x| x.abs()).sum();
                        let sab_abs: f64 = (0..n).map(|k| (va[k] * vb[k]).abs()).sum();
                        let sa2 = sa2.max(nf * ma * ma);
                        let sa = sa.max(nf * ma);
                        let sab_abs = sab_abs.max(nf * ma * mb);
                        let tol = eh * 4.0 * (sa2 + alpha.abs() * sa + beta.abs() * sab_abs) + 4.0 * d_alpha * sa + 4.0 * d_beta * sab_abs + TINY;
                        Exp::val(sse, tol)
                    },
                }
            },
        };
        out.push(e);
    }
    out
}

// ---------------------------------------------------------------------------------------------
// comparison of one produced output with the expectation

/// Returns Ok(err/tol ratio) or Err(relation).
pub fn compare(got: Option<f64>, exp: &Exp, tout: OutT) -> Result<f64, String> {
    // integer outputs without a null encoding: null == 0
    if tout == OutT::I32 {
        let g = got.unwrap_or(0.0);
        match exp.null {
            Tri::Yes => {
                return if g == 0.0 { Ok(0.0) } else { Err(format!("mask:expected-null-as-0 got {}", g)) };
            },
            Tri::Any => {
                if exp.alts.is_empty() {
                    return Ok(0.0);
                }
            },
            Tri::No => {},
        }
        if exp.alts.is_empty() {
            return Ok(0.0);
        }
        for (v, t) in &exp.alts {
            let lo = (v - t).trunc().min((v + t).trunc());
            let hi = (v - t).trunc().max((v + t).trunc());
            let lo = lo.clamp(i32::MIN as f64, i32::MAX as f64);
            let hi = hi.clamp(i32::MIN as f64, i32::MAX as f64);
            if g >= lo && g <= hi {
                return Ok(0.0);
            }
        }
        if exp.null == Tri::Any && g == 0.0 {
            return Ok(0.0);
        }
        return Err(format!("value: got {} expected trunc of one of {:?}", g, exp.alts));
    }
    match (got, exp.null) {
        (None, Tri::Yes) | (None, Tri::Any) => Ok(0.0),
        (None, Tri::No) => Err(format!("mask:expected-non-null (one of {:?}) got null", exp.alts)),
        (Some(g), Tri::Yes) => Err(format!("mask:expected-null got {}", g)),
        (Some(g), _) => {
            if exp.alts.is_empty() {
                return Ok(0.0);
            }
            let mut best = f64::INFINITY;
            for (v, t) in &exp.alts {
                let (v, t) = match tout {
                    OutT::F32 => (*v, *t + v.abs() * 1.2e-7 + 1e-45),
                    OutT::OptI32 => {
                        let lo = (v - t).trunc().min((v + t).trunc()).clamp(i32::MIN as f64, i32::MAX as f64);
                        let hi = (v - t).trunc().max((v + t).trunc()).clamp(i32::MIN as f64, i32::MAX as f64);
                        if g >= lo && g <= hi {
                            return Ok(0.0);
                        }
                        continue;
                    },
                    _ => (*v, *t),
                };
                let err = (g - v).abs();
                if g == v || err <= t {
                    // (equal infinities: err is NaN, the match is exact)
                    let r = if g == v { 0.0 } else if t > 0.0 { err / t } else { 0.0 };
                    best = best.min(r);
                } else if g.is_nan() {
                    continue;
                }
            }
            if best.is_finite() {
                Ok(best)
            } else {
                Err(format!("value: got {:e} expected one of {:?}", g, exp.alts))
            }
        },
    }
}

// ---------------------------------------------------------------------------------------------
// aggregations (the whole series is one window, no history)

/// Expected value of an aggregation with `min_periods` = mp (not clamped to the length).
pub fn expect_agg(stat: Stat, x: &Series, mp: usize) -> Exp {
    let len = x.len();
    let n = x.iter().filter(|v| v.is_some()).count();
    if len == 0 || n < mp.max(stat.k()) {
        return Exp::null();
    }
    expect_series(stat, x, len, Some(mp.min(len))).pop().unwrap()
}

pub fn expect_agg2(stat: Stat2, a: &Series, b: &Series, mp: usize) -> Exp {
    let len = a.len();
    let n = a.iter().zip(b.iter()).filter(|(p, q)| p.is_some() && q.is_some()).count();
    if len == 0 || n < mp.max(stat.k()) {
        return Exp::null();
    }
    expect_series2(stat, a, b, len, Some(mp.min(len))).pop().unwrap()
}
