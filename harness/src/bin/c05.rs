//! C05 — rolling outputs are input-length and null exactly during warm-up.
use proptest::prelude::*;
use tvh::engine::*;
use tvh::gen::*;
use tvh::model::{expect_series, expect_series2, lo_of, min_periods_eff, Stat, Stat2};
use tvh::rollcheck::*;

const INS: &[InT] = &[InT::F64, InT::OptF64, InT::I32];
const PLAIN_INS: &[InT] = &[InT::F64, InT::I32];
const OUTS: &[OutT] = &[OutT::F64, OutT::OptF64, OutT::I32];
const OUTS_NONULLINT: &[OutT] = &[OutT::F64, OutT::OptF64];

fn null_free(mut m: MatCase) -> MatCase {
    for v in m.c.x.iter_mut() {
        if v.is_none() {
            *v = Some(0.0);
        }
    }
    m
}

/// non-trivial: the mask at some position is decided by nulls (not only by warm-up), or len < w, or len = 0
fn nontrivial1(x: &Series, w: usize, mp: Option<usize>, k: usize) -> bool {
    let len = x.len();
    if len == 0 || len < w {
        return true;
    }
    let need = min_periods_eff(w, mp).max(k);
    (0..len).any(|i| {
        let lo = lo_of(i, w);
        let c = (lo..=i).filter(|j| x[*j].is_some()).count();
        c < need && need <= (i + 1).min(w)
    })
}

fn check_single(m: &MatCase, stat: Stat, valid: bool, obs: &mut Obs) -> CheckResult {
    let name = format!("{}{}", if valid { "ts_v" } else { "ts_" }, stat.name());
    let r = if valid { eval_valid_mat(m, stat) } else { eval_plain_mat(m, stat) };
    let (got, label) = match r {
        None => {
            obs.class("cell_not_offered_by_backend");
            return Ok(());
        },
        Some(Err(e)) => return fail("out-path", format!("{}: {}", name, e)),
        Some(Ok(v)) => v,
    };
    let exp = expect_series(stat, &m.c.x, m.c.w, m.c.mp);
    mask_check(&name, &got, &exp, mat_tout(m.c.tout), m.c.x.len())?;
    backend_classes(m.bk, m.ok, label, m.c.out_buf, obs);
    obs.class_if(m.c.x.is_empty(), "len=0");
    obs.class_if(!m.c.x.is_empty() && m.c.x.len() < m.c.w, "len<w");
    obs.class_if(m.c.mp.is_none(), "min_periods_omitted");
    obs.set_nontrivial(nontrivial1(&m.c.x, m.c.w, m.c.mp, stat.k()));
    Ok(())
}

fn check_double(m: &Mat2Case, stat: Stat2, obs: &mut Obs) -> CheckResult {
    let name = format!("ts_v{}", stat.name());
    let (got, label) = eval2_mat(m, stat).map_err(|e| Fail {
        sig: "out-path".into(),
        detail: format!("{}: {}", name, e),
    })?;
    let exp = expect_series2(stat, &m.c.x, &m.c.y, m.c.w, m.c.mp);
    mask_check(&name, &got, &exp, OutT::F64, m.c.x.len())?;
    backend_classes(m.bk, m.ok, label, m.c.out_buf, obs);
    // the same law for the Option / integer element types (Vec backend): a null Option inside a window
    // must neither panic nor change the mask
    if !matches!(stat, Stat2::RegxAllAlpha | Stat2::RegxAllBeta | Stat2::RegxAllSse) {
        use tvh::conv::{materialize, normalize};
        use tvh::sut;
        let (ao, bo): (Vec<Option<f64>>, Vec<Option<f64>>) = (materialize(&m.c.x), materialize(&m.c.y));
        let bf: Vec<f64> = materialize(&m.c.y);
        let len = ao.len();
        let e = |e: String| Fail { sig: "out-path".into(), detail: format!("{}: {}", name, e) };
        let g1 = normalize(sut::via_vec(len, m.c.out_buf, |buf| sut::roll2::<_, Option<f64>, _, Option<f64>, Vec<Option<f64>>, Option<f64>>(&ao, &bo, stat, m.c.w, m.c.mp, buf)).map_err(e)?);
        mask_check(&format!("{}<Option<f64>,Option<f64>>", name), &g1, &exp, OutT::OptF64, len)?;
        let g2 = normalize(sut::via_vec(len, !m.c.out_buf, |buf| sut::roll2::<_, Option<f64>, _, f64, Vec<f64>, f64>(&ao, &bf, stat, m.c.w, m.c.mp, buf)).map_err(e)?);
        mask_check(&format!("{}<Option<f64>,f64>", name), &g2, &exp, OutT::F64, len)?;
        obs.class("option_elements");
    }
    let joint: Series = m.c.x.iter().zip(m.c.y.iter()).map(|(a, b)| if a.is_some() && b.is_some() { Some(1.0) } else { None }).collect();
    obs.class_if(m.c.x.is_empty(), "len=0");
    obs.class_if(!m.c.x.is_empty() && m.c.x.len() < m.c.w, "len<w");
    obs.set_nontrivial(nontrivial1(&joint, m.c.w, m.c.mp, stat.k()));
    Ok(())
}

/// Windows far beyond any series length ("all windows >= 1": 2^31, 2^32, 2^62, 2^63, usize::MAX - the
/// ways of asking for an expanding window), with min_periods omitted (floor(w/2) can then never be
/// reached: every output is null) or explicit (small: the expanding-window mask; of the order of the
/// window: all null). The model evaluates the equivalent window len + 2.
const HUGE_W: [usize; 10] = [1 << 31, (1 << 31) + 1, 1 << 32, (1 << 32) + 6, 1 << 33, 1 << 62, 1 << 63, usize::MAX, usize::MAX - 1, isize::MAX as usize];

fn huge_case(tier: Tier, ins: &'static [InT], outs: &'static [OutT]) -> impl Strategy<Value = RollCase> {
    (roll_case_of(tier, ins, outs, 24, 60, 1, EXACT_CLASSES), 0usize..10, 0usize..10).prop_map(|(mut c, ws, ms)| {
        let len = c.x.len();
        c.w = HUGE_W[ws];
        c.mp = match ms {
            0 | 1 => None,
            2 => Some(0),
            3 => Some(1),
            4 => Some(2),
            5 => Some(len / 2),
            6 => Some(len),
            7 => Some(c.w / 2),
            8 => Some(((1usize << 31) + 1).min(c.w)),
            _ => Some(c.w),
        };
        c
    })
}

fn check_huge(c: &RollCase, stat: Stat, valid: bool, obs: &mut Obs) -> CheckResult {
    let name = format!("huge_w:{}{}", if valid { "ts_v" } else { "ts_" }, stat.name());
    let len = c.x.len();
    if stat == Stat::Ewm && c.w > (1 << 40) {
        // alpha = 2/w is below the resolution of f64 there (1 - alpha rounds to 1 from w = 2^54 on and the
        // normalising factor 1 - (1-alpha)^n cancels completely): the statistic is not computable from the
        // library's own definition of alpha, so nothing is asserted (DESIGN 5.2)
        obs.class("ewm_alpha_below_f64_resolution_skipped");
        return Ok(());
    }
    let got = if valid { eval_valid(c, stat) } else { eval_plain(c, stat) }.map_err(|e| Fail { sig: format!("{}:out-path", name), detail: e })?;
    let exp = match c.mp {
        None if stat.cmp_family() => return Ok(()), // DESIGN 5.3: unspecified for len < w
        None => expect_series(stat, &c.x, len + 2, Some(len + 2)),
        Some(m) => expect_series(stat, &c.x, len + 2, Some(m.min(len + 2))),
    };
    mask_check(&name, &got, &exp, c.tout, len).map_err(|f| Fail { sig: format!("{}:{}", name, f.sig), detail: format!("window {} min_periods {:?}: {}", c.w, c.mp, f.detail) })?;
    obs.class_if(c.mp.is_none(), "min_periods_omitted");
    obs.class_if(matches!(c.mp, Some(m) if m > len), "min_periods>len");
    obs.set_nontrivial(len > 0);
    Ok(())
}

fn main() {
    let mut p = Property::new(
        "C05",
        "cases = (series of length 0..=24 (thorough ..=60) from exact value classes x all null patterns, window 1..=len+2, min_periods omitted or 0..=w, input element type, output element type, input backend (Vec, array, VecDeque rotations, ndarray owned / strided / reversed views, Arc-wrapped), output container, returned/out-buffer path) per rolling entry point; oracle = length law and boolean null-mask law from counted valid observations; type_extreme_windows:* replace the window by 2^31 .. usize::MAX (min_periods omitted, small, or of the order of the window) and compare with the equivalent window len + 2 (non-trivial there = len > 0). \
         Non-trivial = len 0, or len < w, or a position whose null-ness is decided by nulls inside the window rather than by warm-up; distinct = distinct serialised cases",
    )
    .assume("value classes are dyadic / small integers so that 'defined' (non-zero spread) is decidable exactly (DESIGN 5.6)")
    .assume("extrema / rank family with omitted min_periods asserted for len >= w only (DESIGN 5.3); integer outputs only in the null direction")
    .assume("fdiff entry points cannot be instantiated on VecDeque and borrowed ndarray views (slice type bound); Polars cells are in C07's Polars binary");
    let valid_stats = [
        Stat::Sum,
        Stat::Mean,
        Stat::Ewm,
        Stat::Wma,
        Stat::Std,
        Stat::Var,
        Stat::Skew,
        Stat::Kurt,
        Stat::Fdiff(0.5),
        Stat::Min,
        Stat::Max,
        Stat::ArgMin,
        Stat::ArgMax,
        Stat::Rank { pct: false, rev: false },
        Stat::Rank { pct: true, rev: true },
        Stat::MinMaxNorm,
        Stat::ZScore,
        Stat::Reg,
        Stat::Tsf,
        Stat::RegSlope,
        Stat::RegIntercept,
        Stat::RegResidMean,
    ];
    for st in valid_stats {
        let outs: &'static [OutT] = if matches!(st, Stat::Min | Stat::Max) { OUTS_NONULLINT } else { OUTS };
        p.add(sub(
            &format!("ts_v{}", st.name()),
            6000,
            200000,
            move |tier| mat_case(roll_case_of(tier, INS, outs, 24, 60, 1, EXACT_CLASSES)),
            move |m: &MatCase, obs: &mut Obs| check_single(m, st, true, obs),
        ));
    }
    let plain_stats = [Stat::Sum, Stat::Mean, Stat::Ewm, Stat::Wma, Stat::Std, Stat::Var, Stat::Skew, Stat::Kurt, Stat::Fdiff(0.5)];
    for st in plain_stats {
        p.add(sub(
            &format!("ts_{}", st.name()),
            6000,
            200000,
            move |tier| {
                mat_case(roll_case_of(tier, PLAIN_INS, OUTS, 24, 60, 1, EXACT_CLASSES)).prop_map(move |mut m| {
                    if matches!(st, Stat::Fdiff(_)) {
                        m.c.mp = Some(0);
                    }
                    null_free(m)
                })
            },
            move |m: &MatCase, obs: &mut Obs| check_single(m, st, false, obs),
        ));
    }
    for st in valid_stats {
        if matches!(st, Stat::Fdiff(_)) {
            continue;
        }
        let outs: &'static [OutT] = if matches!(st, Stat::Min | Stat::Max) { OUTS_NONULLINT } else { OUTS };
        p.add(sub(&format!("type_extreme_windows:ts_v{}", st.name()), 1500, 50000, move |tier| huge_case(tier, INS, outs), move |c: &RollCase, obs: &mut Obs| check_huge(c, st, true, obs)));
    }
    for st in plain_stats {
        if matches!(st, Stat::Fdiff(_)) {
            continue;
        }
        p.add(sub(
            &format!("type_extreme_windows:ts_{}", st.name()),
            1500,
            50000,
            move |tier| {
                huge_case(tier, PLAIN_INS, OUTS).prop_map(|mut c| {
                    for v in c.x.iter_mut() {
                        if v.is_none() {
                            *v = Some(0.0);
                        }
                    }
                    c
                })
            },
            move |c: &RollCase, obs: &mut Obs| check_huge(c, st, false, obs),
        ));
    }
    let two = [
        Stat2::Cov,
        Stat2::Corr,
        Stat2::RegxAlpha,
        Stat2::RegxBeta,
        Stat2::RegxResidMean,
        Stat2::RegxResidStd,
        Stat2::RegxResidSkew,
        Stat2::RegxAllAlpha,
        Stat2::RegxAllSse,
    ];
    for st in two {
        p.add(sub(
            &format!("ts_v{}", st.name()),
            6000,
            200000,
            |tier| mat2_case(roll2_case(tier, 24, 60, 1)),
            move |m: &Mat2Case, obs: &mut Obs| check_double(m, st, obs),
        ));
    }
    main_for(p);
}
