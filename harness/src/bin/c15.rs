//! C15 — null and cast algebra is coherent across all element types.
use std::cmp::Ordering;

use proptest::prelude::*;
use serde::{Deserialize, Serialize};
use tevec::prelude::{unit, Cast, DateTime, IsNone, Number, Time, TimeDelta};
use tvh::engine::{fail, main_for, sub, sub_enum, CheckResult, Fail, Obs, Property, Tier};

// ---------------------------------------------------------------------------------------------
// boundary pools

fn pool_f64() -> Vec<f64> {
    vec![
        0.0, -0.0, 1.0, -1.0, 0.5, -0.5, 1.5, 2.5, 255.0, 256.0, -129.0, 16777217.0, 9007199254740993.0, 2147483647.0, 2147483648.0, -2147483649.0, 4294967296.0, 9.3e18, -9.3e18, 1.9e19,
        f64::MAX, f64::MIN, f64::MIN_POSITIVE, 5e-324, f64::INFINITY, f64::NEG_INFINITY, f64::NAN, 1e-7, 123456.789,
    ]
}
fn pool_f32() -> Vec<f32> {
    vec![0.0, -0.0, 1.0, -1.0, 0.5, 2.5, 255.0, 256.0, 16777216.0, 2147483648.0, -2147483904.0, 3e38, -3e38, f32::MAX, f32::MIN, f32::MIN_POSITIVE, 1e-45, f32::INFINITY, f32::NEG_INFINITY, f32::NAN]
}
fn pool_i64() -> Vec<i64> {
    vec![0, 1, -1, 2, 127, 128, 255, 256, -128, -129, 16777217, 9007199254740993, i32::MAX as i64, i32::MAX as i64 + 1, i32::MIN as i64, i32::MIN as i64 - 1, u32::MAX as i64 + 1, i64::MAX, i64::MAX - 1, i64::MIN, i64::MIN + 1]
}
fn pool_i32() -> Vec<i32> {
    vec![0, 1, -1, 2, 127, 128, 255, 256, -128, -129, 16777217, i32::MAX, i32::MAX - 1, i32::MIN, i32::MIN + 1]
}
fn pool_u8() -> Vec<u8> {
    vec![0, 1, 2, 127, 128, 254, 255]
}
fn pool_u64() -> Vec<u64> {
    vec![0, 1, 2, 255, 256, 16777217, 9007199254740993, i32::MAX as u64 + 1, i64::MAX as u64, i64::MAX as u64 + 1, u64::MAX, u64::MAX - 1]
}
fn pool_usize() -> Vec<usize> {
    pool_u64().into_iter().map(|v| v as usize).collect()
}
fn pool_isize() -> Vec<isize> {
    pool_i64().into_iter().map(|v| v as isize).collect()
}

trait Bits: Copy + std::fmt::Debug {
    fn bits(self) -> u128;
}
macro_rules! int_bits {
    ($($t:ty),*) => {$(impl Bits for $t { fn bits(self) -> u128 { self as i128 as u128 } })*};
}
int_bits!(u8, u64, i32, i64, usize, isize);
impl Bits for f64 {
    fn bits(self) -> u128 {
        if self.is_nan() { u128::MAX } else { self.to_bits() as u128 }
    }
}
impl Bits for f32 {
    fn bits(self) -> u128 {
        if self.is_nan() { u128::MAX } else { self.to_bits() as u128 }
    }
}
impl Bits for bool {
    fn bits(self) -> u128 {
        self as u128
    }
}
fn obits<T: Bits>(v: Option<T>) -> u128 {
    match v {
        None => u128::MAX - 1,
        Some(v) => v.bits(),
    }
}

/// numeric -> numeric: agreement with `as`, null preservation, composition through Option
macro_rules! num_pair {
    ($S:ty, $T:ty, $pool:expr, $t_is_float:expr) => {{
        let name = concat!(stringify!($S), "->", stringify!($T));
        for x in $pool {
            let x: $S = x;
            let want: $T = x as $T;
            let null = IsNone::is_none(&x);
            let got: $T = Cast::<$T>::cast(x);
            if got.bits() != want.bits() {
                return fail(format!("cast:{}:as", name), format!("{:?}.cast::<{}>() = {:?}, `as` gives {:?}", x, stringify!($T), got, want));
            }
            if null && $t_is_float && !IsNone::is_none(&got) {
                return fail(format!("cast:{}:null-lost", name), format!("null {:?} cast to {:?}", x, got));
            }
            let got: Option<$T> = Cast::<Option<$T>>::cast(x);
            let wanto = if null { None } else { Some(want) };
            if obits(got) != obits(wanto) {
                return fail(format!("cast:{}:to-option", name), format!("{:?}.cast::<Option<{}>>() = {:?}, expected {:?}", x, stringify!($T), got, wanto));
            }
            if !null {
                let got: $T = Cast::<$T>::cast(Some(x));
                if got.bits() != want.bits() {
                    return fail(format!("cast:{}:from-some", name), format!("Some({:?}).cast::<{}>() = {:?}, expected {:?}", x, stringify!($T), got, want));
                }
                let got: Option<$T> = Cast::<Option<$T>>::cast(Some(x));
                if obits(got) != obits(Some(want)) {
                    return fail(format!("cast:{}:option-to-option", name), format!("Some({:?}).cast::<Option<{}>>() = {:?}", x, stringify!($T), got));
                }
            }
        }
        let got: Option<$T> = Cast::<Option<$T>>::cast(None::<$S>);
        if got.is_some() {
            return fail(format!("cast:{}:none-to-option", name), format!("None.cast::<Option<{}>>() = {:?}", stringify!($T), got));
        }
        if $t_is_float {
            let got: $T = Cast::<$T>::cast(None::<$S>);
            if !IsNone::is_none(&got) {
                return fail(format!("cast:{}:none-to-float", name), format!("None.cast::<{}>() = {:?}", stringify!($T), got));
            }
        }
    }};
}

macro_rules! num_row {
    ($S:ty, $pool:expr) => {{
        num_pair!($S, u8, $pool, false);
        num_pair!($S, u64, $pool, false);
        num_pair!($S, i32, $pool, false);
        num_pair!($S, i64, $pool, false);
        num_pair!($S, usize, $pool, false);
        num_pair!($S, isize, $pool, false);
        num_pair!($S, f32, $pool, true);
        num_pair!($S, f64, $pool, true);
    }};
}

fn numeric_table() -> CheckResult {
    num_row!(u8, pool_u8());
    num_row!(u64, pool_u64());
    num_row!(i32, pool_i32());
    num_row!(i64, pool_i64());
    num_row!(usize, pool_usize());
    num_row!(isize, pool_isize());
    num_row!(f32, pool_f32());
    num_row!(f64, pool_f64());
    Ok(())
}

/// bool <-> numeric (only 0/1 are in the domain, DESIGN 5.7), strings (round trip)
macro_rules! bool_str_row {
    ($S:ty, $pool:expr) => {{
        let name = stringify!($S);
        for b in [false, true] {
            let x: $S = Cast::<$S>::cast(b);
            if x != (b as u8 as $S) {
                return fail(format!("cast:bool->{}", name), format!("{}.cast() = {:?}", b, x));
            }
            let back: bool = Cast::<bool>::cast(x);
            let ob: Option<bool> = Cast::<Option<bool>>::cast(x);
            let ob2: Option<bool> = Cast::<Option<bool>>::cast(Some(x));
            let os: Option<$S> = Cast::<Option<$S>>::cast(Some(b));
            let os2: Option<$S> = Cast::<Option<$S>>::cast(b);
            let back_o: bool = Cast::<bool>::cast(Some(x));
            let from_ob: $S = Cast::<$S>::cast(Some(b));
            if back != b || back_o != b || from_ob != x || ob != Some(b) || ob2 != Some(b) || os != Some(x) || os2 != Some(x) {
                return fail(format!("cast:{}<->bool", name), format!("{} round trip through {}: {:?} {:?} {:?} {:?}", b, name, back, ob, ob2, os));
            }
        }
        let n: Option<bool> = Cast::<Option<bool>>::cast(None::<$S>);
        let n2: Option<$S> = Cast::<Option<$S>>::cast(None::<bool>);
        if n.is_some() || n2.is_some() {
            return fail(format!("cast:{}<->bool:none", name), "None was not preserved");
        }
        for x in $pool {
            let x: $S = x;
            let s: String = Cast::<String>::cast(x);
            let back: $S = Cast::<$S>::cast(s.clone());
            let back2: $S = Cast::<$S>::cast(s.as_str());
            if back.bits() != x.bits() || back2.bits() != x.bits() {
                return fail(format!("cast:{}<->String:roundtrip", name), format!("{:?} -> {:?} -> {:?}", x, s, back));
            }
            if IsNone::is_none(&x) != IsNone::is_none(&back) {
                return fail(format!("cast:{}<->String:nullness", name), format!("{:?} -> {:?} -> {:?}", x, s, back));
            }
            if !IsNone::is_none(&x) {
                let so: String = Cast::<String>::cast(Some(x));
                let bo: Option<$S> = Cast::<Option<$S>>::cast(so.clone());
                if so != s || obits(bo) != obits(Some(x)) {
                    return fail(format!("cast:Option<{}><->String", name), format!("Some({:?}) -> {:?} -> {:?}", x, so, bo));
                }
            }
        }
        let so: String = Cast::<String>::cast(None::<$S>);
        let bo: Option<$S> = Cast::<Option<$S>>::cast(so.clone());
        let bo2: Option<$S> = Cast::<Option<$S>>::cast("None");
        if !IsNone::is_none(&so) || bo.is_some() || bo2.is_some() {
            return fail(format!("cast:Option<{}><->String:none", name), format!("None -> {:?} -> {:?}", so, bo));
        }
    }};
}

fn bool_string_table() -> CheckResult {
    bool_str_row!(u8, pool_u8());
    bool_str_row!(u64, pool_u64());
    bool_str_row!(i32, pool_i32());
    bool_str_row!(i64, pool_i64());
    bool_str_row!(usize, pool_usize());
    bool_str_row!(isize, pool_isize());
    bool_str_row!(f32, pool_f32());
    bool_str_row!(f64, pool_f64());
    // a null Option<bool> becomes the float null, and the float null becomes a null Option<bool>
    let (a, b): (f64, f32) = (Cast::<f64>::cast(None::<bool>), Cast::<f32>::cast(None::<bool>));
    if !a.is_nan() || !b.is_nan() {
        return fail("cast:Option<bool>->float:none", format!("None::<bool> cast to f64 / f32 = {:?} / {:?}, expected NaN", a, b));
    }
    let (a, b): (Option<bool>, Option<bool>) = (Cast::<Option<bool>>::cast(f64::NAN), Cast::<Option<bool>>::cast(f32::NAN));
    if a.is_some() || b.is_some() {
        return fail("cast:float->Option<bool>:nan", format!("NaN cast to Option<bool> = {:?} / {:?}, expected None", a, b));
    }
    for v in [Some(false), Some(true)] {
        let (a, b): (f64, f32) = (Cast::<f64>::cast(v), Cast::<f32>::cast(v));
        let want = v.unwrap() as u8 as f64;
        if a != want || b as f64 != want {
            return fail("cast:Option<bool>->float", format!("{:?} cast to f64 / f32 = {:?} / {:?}", v, a, b));
        }
    }
    for b in [false, true] {
        let s: String = Cast::<String>::cast(b);
        let back: bool = Cast::<bool>::cast(s.clone());
        let ob: Option<bool> = Cast::<Option<bool>>::cast(s.as_str());
        if back != b || ob != Some(b) {
            return fail("cast:bool<->String", format!("{} -> {:?} -> {}", b, s, back));
        }
    }
    Ok(())
}

/// time types: null <-> NaT, integers <-> raw value
fn time_table() -> CheckResult {
    macro_rules! dt_unit {
        ($U:ty) => {{
            let uname = stringify!($U);
            let nat = DateTime::<$U>::nat();
            // optional / nullable sources
            let from_none: DateTime<$U> = Cast::<DateTime<$U>>::cast(None::<i64>);
            let from_none32: DateTime<$U> = Cast::<DateTime<$U>>::cast(None::<i32>);
            let from_nonef: DateTime<$U> = Cast::<DateTime<$U>>::cast(None::<f64>);
            if !from_none.is_nat() || !from_none32.is_nat() || !from_nonef.is_nat() {
                return fail(format!("cast:None->DateTime<{}>", uname), "None did not become NaT");
            }
            let from_nan: DateTime<$U> = Cast::<DateTime<$U>>::cast(f64::NAN);
            if !from_nan.is_nat() {
                return fail(format!("cast:NaN->DateTime<{}>", uname), format!("NaN became {:?}", from_nan.0));
            }
            let from_nan32: DateTime<$U> = Cast::<DateTime<$U>>::cast(f32::NAN);
            if !from_nan32.is_nat() {
                return fail(format!("cast:NaN(f32)->DateTime<{}>", uname), format!("NaN became {:?}", from_nan32.0));
            }
            // NaT to nullable targets
            let f: f64 = Cast::<f64>::cast(nat);
            let f2: f32 = Cast::<f32>::cast(nat);
            if !f.is_nan() || !f2.is_nan() {
                return fail(format!("cast:DateTime<{}>->float:nat", uname), format!("NaT became {} / {}", f, f2));
            }
            let o: Option<i64> = Cast::<Option<i64>>::cast(nat);
            let o2: Option<f64> = Cast::<Option<f64>>::cast(nat);
            let o3: Option<i32> = Cast::<Option<i32>>::cast(nat);
            if o.is_some() || o2.is_some() || o3.is_some() {
                return fail(format!("cast:DateTime<{}>->Option:nat", uname), "NaT became Some");
            }
            for v in [0i64, 1, -1, 86_400, 1_600_000_000, -1_600_000_000, i32::MAX as i64, 1 << 52] {
                let d: DateTime<$U> = Cast::<DateTime<$U>>::cast(v);
                let d2: DateTime<$U> = Cast::<DateTime<$U>>::cast(Some(v));
                let back: i64 = Cast::<i64>::cast(d);
                let backo: Option<i64> = Cast::<Option<i64>>::cast(d);
                let backf: f64 = Cast::<f64>::cast(d);
                let backof: Option<f64> = Cast::<Option<f64>>::cast(d);
                if d.0 != v || d2.0 != v || back != v || backo != Some(v) || backf != v as f64 || backof != Some(v as f64) {
                    return fail(format!("cast:i64<->DateTime<{}>", uname), format!("{} -> {:?} -> {} / {:?} / {}", v, d.0, back, backo, backf));
                }
                let df: DateTime<$U> = Cast::<DateTime<$U>>::cast(v as f64);
                if df.0 != v {
                    return fail(format!("cast:f64->DateTime<{}>", uname), format!("{} -> {}", v as f64, df.0));
                }
            }
        }};
    }
    dt_unit!(unit::Second);
    dt_unit!(unit::Millisecond);
    dt_unit!(unit::Microsecond);
    dt_unit!(unit::Nanosecond);
    // Time / TimeDelta
    let t: Time = Cast::<Time>::cast(None::<i64>);
    let t2: Time = Cast::<Time>::cast(f64::NAN);
    let td: TimeDelta = Cast::<TimeDelta>::cast(None::<i64>);
    let td2: TimeDelta = Cast::<TimeDelta>::cast(f64::NAN);
    if !t.is_nat() || !td.is_nat() {
        return fail("cast:None->Time/TimeDelta", "None did not become NaT");
    }
    if !t2.is_nat() || !td2.is_nat() {
        return fail("cast:NaN->Time/TimeDelta", format!("NaN became {:?} / {:?}", t2, td2));
    }
    let f: f64 = Cast::<f64>::cast(Time::nat());
    let o: Option<i64> = Cast::<Option<i64>>::cast(Time::nat());
    let o2: Option<f64> = Cast::<Option<f64>>::cast(Time::nat());
    if !f.is_nan() {
        return fail("cast:Time->float:nat", format!("NaT became {}", f));
    }
    if o.is_some() || o2.is_some() {
        return fail("cast:Time->Option:nat", "NaT became Some");
    }
    for v in [0i64, 1, 86_399_999_999_999, 43_200_000_000_000] {
        let t: Time = Cast::<Time>::cast(v);
        let back: i64 = Cast::<i64>::cast(t);
        let backo: Option<i64> = Cast::<Option<i64>>::cast(t);
        if t.0 != v || back != v || backo != Some(v) {
            return fail("cast:i64<->Time", format!("{} -> {:?} -> {}", v, t, back));
        }
    }
    Ok(())
}

// ---------------------------------------------------------------------------------------------
// IsNone coherence

fn isnone_laws<T: IsNone + std::fmt::Debug>(name: &str, values: Vec<T>, nullable: bool, eq: impl Fn(&T::Inner, &T::Inner) -> bool) -> CheckResult
where
    T::Inner: std::fmt::Debug,
{
    for x in values {
        let a = x.is_none();
        let b = !x.not_none();
        let c = x.clone().to_opt().is_none();
        let d = x.as_opt().is_none();
        if !(a == b && b == c && c == d) {
            return fail(format!("isnone:{}:predicates", name), format!("{:?}: is_none {} !not_none {} to_opt().is_none() {} as_opt().is_none() {}", x, a, b, c, d));
        }
        if !a {
            let inner = x.clone().unwrap();
            let again = T::from_inner(inner.clone());
            if again.is_none() || !eq(&again.clone().unwrap(), &inner) || !eq(&again.to_opt().unwrap(), &inner) {
                return fail(format!("isnone:{}:from_inner", name), format!("from_inner(unwrap({:?})) is not the identity", x));
            }
            let fo = T::from_opt(Some(inner.clone()));
            if fo.is_none() || !eq(&fo.unwrap(), &inner) {
                return fail(format!("isnone:{}:from_opt", name), format!("from_opt(Some(..)) of {:?}", x));
            }
        }
        // map propagates nullness
        let m: T = x.clone().map(|v| v);
        if m.is_none() != a {
            return fail(format!("isnone:{}:map", name), format!("map(identity) changed the nullness of {:?}", x));
        }
    }
    if nullable {
        if !T::none().is_none() {
            return fail(format!("isnone:{}:none", name), "none() is not null");
        }
        if !T::from_opt(None).is_none() {
            return fail(format!("isnone:{}:from_opt_none", name), "from_opt(None) is not null");
        }
        let m: T = T::none().map(|v| v);
        if !m.is_none() {
            return fail(format!("isnone:{}:map_none", name), "map on null produced a value");
        }
    }
    Ok(())
}

fn isnone_table() -> CheckResult {
    let feq = |a: &f64, b: &f64| a.to_bits() == b.to_bits();
    let feq32 = |a: &f32, b: &f32| a.to_bits() == b.to_bits();
    isnone_laws::<f64>("f64", pool_f64(), true, feq)?;
    isnone_laws::<f32>("f32", pool_f32(), true, feq32)?;
    isnone_laws::<i32>("i32", pool_i32(), false, |a, b| a == b)?;
    isnone_laws::<i64>("i64", pool_i64(), false, |a, b| a == b)?;
    isnone_laws::<u8>("u8", pool_u8(), false, |a, b| a == b)?;
    isnone_laws::<u64>("u64", pool_u64(), false, |a, b| a == b)?;
    isnone_laws::<usize>("usize", pool_usize(), false, |a, b| a == b)?;
    isnone_laws::<isize>("isize", pool_isize(), false, |a, b| a == b)?;
    isnone_laws::<bool>("bool", vec![false, true], false, |a, b| a == b)?;
    // canonical nulls only: Some(NaN) is excluded (DESIGN 5.4)
    let of: Vec<Option<f64>> = pool_f64().into_iter().filter(|v| !v.is_nan()).map(Some).chain([None]).collect();
    isnone_laws::<Option<f64>>("Option<f64>", of, true, feq)?;
    let of: Vec<Option<f32>> = pool_f32().into_iter().filter(|v| !v.is_nan()).map(Some).chain([None]).collect();
    isnone_laws::<Option<f32>>("Option<f32>", of, true, feq32)?;
    isnone_laws::<Option<i32>>("Option<i32>", pool_i32().into_iter().map(Some).chain([None]).collect(), true, |a, b| a == b)?;
    isnone_laws::<Option<i64>>("Option<i64>", pool_i64().into_iter().map(Some).chain([None]).collect(), true, |a, b| a == b)?;
    isnone_laws::<Option<u8>>("Option<u8>", pool_u8().into_iter().map(Some).chain([None]).collect(), true, |a, b| a == b)?;
    isnone_laws::<Option<u64>>("Option<u64>", pool_u64().into_iter().map(Some).chain([None]).collect(), true, |a, b| a == b)?;
    isnone_laws::<Option<usize>>("Option<usize>", pool_usize().into_iter().map(Some).chain([None]).collect(), true, |a, b| a == b)?;
    isnone_laws::<Option<bool>>("Option<bool>", vec![Some(true), Some(false), None], true, |a, b| a == b)?;
    isnone_laws::<String>("String", vec!["".to_string(), "a".to_string(), "None".to_string(), "none".to_string(), "NaN".to_string(), "None ".to_string()], true, |a, b| a == b)?;
    isnone_laws::<&str>("&str", vec!["", "a", "None", "none", "NaN"], true, |a, b| a == b)?;
    let ts = vec![0i64, 1, -1, i64::MAX, i64::MIN + 1, i64::MIN];
    isnone_laws::<DateTime<unit::Nanosecond>>("DateTime<ns>", ts.iter().map(|v| DateTime::new(*v)).collect(), true, |a, b| a == b)?;
    isnone_laws::<DateTime<unit::Second>>("DateTime<s>", ts.iter().map(|v| DateTime::new(*v)).collect(), true, |a, b| a == b)?;
    isnone_laws::<Time>("Time", ts.iter().map(|v| Time::from_i64(*v)).collect(), true, |a, b| a == b)?;
    let tds = vec![
        TimeDelta { months: 0, inner: chrono::Duration::zero() },
        TimeDelta { months: 3, inner: chrono::Duration::seconds(5) },
        TimeDelta { months: -1, inner: chrono::Duration::nanoseconds(-7) },
        TimeDelta::nat(),
    ];
    isnone_laws::<TimeDelta>("TimeDelta", tds, true, |a, b| a == b)?;
    isnone_laws::<Vec<i32>>("Vec<i32>", vec![vec![], vec![0], vec![1, 2]], true, |a, b| a == b)?;
    // vabs preserves nullness (MIN of signed integers excluded: std overflow)
    for x in pool_f64() {
        if x.vabs().is_none() != x.is_none() || (!x.is_nan() && x.vabs() != x.abs()) {
            return fail("vabs:f64", format!("vabs({:?}) = {:?}", x, x.vabs()));
        }
        let o = if x.is_nan() { None } else { Some(x) };
        if o.vabs() != o.map(|v| v.abs()) {
            return fail("vabs:Option<f64>", format!("vabs({:?}) = {:?}", o, o.vabs()));
        }
    }
    for x in pool_i32().into_iter().filter(|v| *v != i32::MIN) {
        if x.vabs() != x.abs() || Some(x).vabs() != Some(x.abs()) {
            return fail("vabs:i32", format!("vabs({})", x));
        }
    }
    if None::<i32>.vabs().is_some() || None::<f64>.vabs().is_some() {
        return fail("vabs:none", "vabs(None) is not None");
    }
    Ok(())
}

#[derive(Clone, Debug, Serialize, Deserialize)]
struct TableCase {
    table: u8,
}

/// the `Number` conversion helpers (f32(), f64(), i32(), i64(), usize(), to::<U>(), fromas) are the
/// same numeric conversions as `as`, on every pool value of every numeric type
macro_rules! number_row {
    ($S:ty, $pool:expr) => {{
        let name = stringify!($S);
        for x in $pool {
            let x: $S = x;
            macro_rules! same {
                ($what:expr, $got:expr, $want:expr) => {
                    if $got.bits() != $want.bits() {
                        return fail(format!("number:{}:{}", name, $what), format!("{:?}.{} = {:?}, `as` gives {:?}", x, $what, $got, $want));
                    }
                };
            }
            same!("f32()", Number::f32(x), (x as f32));
            same!("f64()", Number::f64(x), (x as f64));
            same!("i32()", Number::i32(x), (x as i32));
            same!("i64()", Number::i64(x), (x as i64));
            same!("usize()", Number::usize(x), (x as usize));
            same!("to::<f64>()", x.to::<f64>(), (x as f64));
            same!("to::<i32>()", x.to::<i32>(), (x as i32));
            same!("to::<u64>()", x.to::<u64>(), (x as u64));
            same!("fromas::<f32>", <f32 as Number>::fromas(x), (x as f32));
            same!("fromas::<i64>", <i64 as Number>::fromas(x), (x as i64));
            same!("fromas::<usize>", <usize as Number>::fromas(x), (x as usize));
            // min_with / max_with pick one of their arguments by value (null-free arguments)
            if !IsNone::is_none(&x) {
                for y in $pool {
                    let y: $S = y;
                    if IsNone::is_none(&y) {
                        continue;
                    }
                    let (lo, hi) = (x.min_with(y), x.max_with(y));
                    if !(lo <= x && lo <= y && hi >= x && hi >= y && (lo == x || lo == y) && (hi == x || hi == y)) {
                        return fail(format!("number:{}:min_max_with", name), format!("min_with / max_with of {:?}, {:?} = {:?}, {:?}", x, y, lo, hi));
                    }
                }
            }
        }
        if <$S as Number>::min_().bits() != <$S>::MIN.bits() || <$S as Number>::max_().bits() != <$S>::MAX.bits() {
            return fail(format!("number:{}:min_max", name), "min_() / max_() are not the type's extremes");
        }
    }};
}

fn number_table() -> CheckResult {
    number_row!(u64, pool_u64());
    number_row!(i32, pool_i32());
    number_row!(i64, pool_i64());
    number_row!(usize, pool_usize());
    number_row!(f32, pool_f32());
    number_row!(f64, pool_f64());
    Ok(())
}

fn tables(_t: Tier) -> impl Iterator<Item = TableCase> {
    (0u8..5).map(|table| TableCase { table })
}

fn check_table(c: &TableCase, obs: &mut Obs) -> CheckResult {
    obs.set_nontrivial(true);
    match c.table {
        0 => numeric_table(),
        1 => bool_string_table(),
        2 => time_table(),
        3 => number_table(),
        _ => isnone_table(),
    }
}

// ---------------------------------------------------------------------------------------------
// comparators: total preorder, values ordered, nulls last

#[derive(Clone, Debug, Serialize, Deserialize)]
struct OrdCase {
    kind: u8,
    a: Option<i32>,
    b: Option<i32>,
    c: Option<i32>,
}

fn ord_value() -> impl Strategy<Value = Option<i32>> {
    prop_oneof![1 => Just(None), 2 => (-3i32..=3).prop_map(Some), 1 => prop_oneof![Just(i32::MIN), Just(i32::MAX), Just(-16777217), Just(16777217)].prop_map(Some), 1 => any::<i32>().prop_map(Some)]
}

fn ord_case(_t: Tier) -> impl Strategy<Value = OrdCase> {
    (0u8..8, ord_value(), ord_value(), ord_value()).prop_map(|(kind, a, b, c)| OrdCase { kind, a, b, c })
}

fn ord_laws<T: IsNone + std::fmt::Debug>(name: &str, a: T, b: T, c: T, val: impl Fn(&T) -> Option<f64>) -> CheckResult
where
    T::Inner: PartialOrd,
{
    for (rev, cname) in [(false, "sort_cmp"), (true, "sort_cmp_rev")] {
        let cmp = |x: &T, y: &T| if rev { x.sort_cmp_rev(y) } else { x.sort_cmp(y) };
        for x in [&a, &b, &c] {
            if cmp(x, x) != Ordering::Equal {
                return fail(format!("{}:{}:reflexive", cname, name), format!("cmp({:?}, {:?}) != Equal", x, x));
            }
        }
        for (x, y) in [(&a, &b), (&a, &c), (&b, &c)] {
            let (xy, yx) = (cmp(x, y), cmp(y, x));
            if xy != yx.reverse() {
                return fail(format!("{}:{}:antisymmetric", cname, name), format!("cmp({:?},{:?}) = {:?} but cmp({:?},{:?}) = {:?}", x, y, xy, y, x, yx));
            }
            // model: nulls last in both directions, values ascending / descending
            let want = match (val(x), val(y)) {
                (None, None) => Ordering::Equal,
                (None, Some(_)) => Ordering::Greater,
                (Some(_), None) => Ordering::Less,
                (Some(p), Some(q)) => {
                    let o = p.partial_cmp(&q).unwrap();
                    if rev { o.reverse() } else { o }
                },
            };
            if xy != want {
                return fail(
                    format!("{}:{}:{}", cname, name, if val(x).is_none() || val(y).is_none() { "nulls-last" } else { "by-value" }),
                    format!("{}({:?}, {:?}) = {:?}, expected {:?}", cname, x, y, xy, want),
                );
            }
        }
        // transitivity over all orderings of the triple
        let v = [&a, &b, &c];
        for i in 0..3 {
            for j in 0..3 {
                for k in 0..3 {
                    if cmp(v[i], v[j]) != Ordering::Greater && cmp(v[j], v[k]) != Ordering::Greater && cmp(v[i], v[k]) == Ordering::Greater {
                        return fail(format!("{}:{}:transitive", cname, name), format!("{:?} <= {:?} <= {:?} but not {:?} <= {:?}", v[i], v[j], v[k], v[i], v[k]));
                    }
                }
            }
        }
    }
    Ok(())
}

fn check_ord(c: &OrdCase, obs: &mut Obs) -> CheckResult {
    let nulls = [c.a, c.b, c.c].iter().filter(|v| v.is_none()).count();
    obs.set_nontrivial(nulls >= 1 && nulls <= 2);
    obs.class_if(nulls > 0, "with_null");
    // float kinds: the value 3 stands for +0.0 and -3 for -0.0 (equal values: neither comes first),
    // 2 / -2 for the infinities
    let z = |x: i32| match x {
        3 => 0.0f64,
        -3 => -0.0f64,
        2 => f64::INFINITY,
        -2 => f64::NEG_INFINITY,
        x => x as f64 * 0.5,
    };
    let f = |v: Option<i32>| v.map(z).unwrap_or(f64::NAN);
    obs.class_if(c.kind != 2 && c.kind != 3 && [c.a, c.b, c.c].iter().any(|v| *v == Some(-3)), "negative_zero");
    match c.kind {
        0 => ord_laws::<f64>("f64", f(c.a), f(c.b), f(c.c), |x| if x.is_nan() { None } else { Some(*x) }),
        1 => ord_laws::<Option<f64>>("Option<f64>", c.a.map(z), c.b.map(z), c.c.map(z), |x| *x),
        2 => ord_laws::<Option<i32>>("Option<i32>", c.a, c.b, c.c, |x| x.map(|v| v as f64)),
        3 => ord_laws::<i32>("i32", c.a.unwrap_or(0), c.b.unwrap_or(1), c.c.unwrap_or(-1), |x| Some(*x as f64)),
        // time types order by their raw value (which may be negative: pre-epoch instants, and a Time is
        // just a wrapped i64), NaT last
        5 => {
            let t = |v: Option<i32>| v.map(|x| Time::from_i64(x as i64 * 1_000_003)).unwrap_or(Time::nat());
            ord_laws::<Time>("Time", t(c.a), t(c.b), t(c.c), |x| if IsNone::is_none(x) { None } else { Some(x.0 as f64) })
        },
        6 => {
            let t = |v: Option<i32>| v.map(|x| DateTime::<unit::Second>::new(x as i64 * 86_399)).unwrap_or(DateTime::nat());
            ord_laws::<DateTime<unit::Second>>("DateTime<s>", t(c.a), t(c.b), t(c.c), |x| if IsNone::is_none(x) { None } else { Some(x.0 as f64) })
        },
        7 => {
            let t = |v: Option<i32>| v.map(|x| DateTime::<unit::Nanosecond>::new(x as i64 * 1_000_000_007)).unwrap_or(DateTime::nat());
            ord_laws::<DateTime<unit::Nanosecond>>("DateTime<ns>", t(c.a), t(c.b), t(c.c), |x| if IsNone::is_none(x) { None } else { Some(x.0 as f64) })
        },
        _ => ord_laws::<f32>(
            "f32",
            c.a.map(|x| z(x) as f32).unwrap_or(f32::NAN),
            c.b.map(|x| z(x) as f32).unwrap_or(f32::NAN),
            c.c.map(|x| z(x) as f32).unwrap_or(f32::NAN),
            |x| if x.is_nan() { None } else { Some(*x as f64) },
        ),
    }
}

// random values through the numeric casts (beyond the pools)
#[derive(Clone, Debug, Serialize, Deserialize)]
struct RndCase {
    f: f64,
    i: i64,
}

fn rnd_case(_t: Tier) -> impl Strategy<Value = RndCase> {
    (prop_oneof![any::<f64>(), (-1e6f64..1e6), (any::<i64>()).prop_map(|v| v as f64 * 0.25)], any::<i64>()).prop_map(|(f, i)| RndCase { f, i })
}

fn check_rnd(c: &RndCase, obs: &mut Obs) -> CheckResult {
    obs.set_nontrivial(c.f.is_nan() || c.f.abs() > 2147483648.0 || c.i.unsigned_abs() > (1u64 << 53));
    num_row!(f64, vec![c.f]);
    num_row!(f32, vec![c.f as f32]);
    num_row!(i64, vec![c.i]);
    num_row!(i32, vec![c.i as i32]);
    num_row!(u64, vec![c.i as u64]);
    num_row!(u8, vec![c.i as u8]);
    Ok(())
}

fn main() {
    let _ = Fail { sig: String::new(), detail: String::new() };
    let mut p = Property::new(
        "C15",
        "exhaustive part (enumerated, 5 tables): every (source, target) pair among u8, u64, i32, i64, usize, isize, f32, f64 on per-type boundary pools (0, +-1, +-0.0, type extremes, extremes +-1, 2^24+1, 2^53+1, values beyond the target range, subnormals, +-inf, NaN): x.cast::<T>() == x as T bit for bit, null -> float is NaN, x.cast::<Option<T>>() is None exactly for nulls, Some(x) / None on either side compose; bool <-> numeric on {0,1}; numeric / Option <-> String round trips with nullness; time types: None / NaN -> NaT, NaT -> NaN / None, i64 <-> raw value for 4 units, Time, TimeDelta; IsNone predicate coherence, none(), from_opt, from_inner / unwrap identity, map, vabs for every implementor; the Number conversion helpers (f32() .. usize(), to, fromas) == `as`, min_() / max_() are the type extremes, min_with / max_with pick an argument by value. \
         generated part: comparator triples over {null, small values with ties, signed zeros, infinities, extremes} for f64 / f32 / Option<f64> / Option<i32> / i32 / Time / DateTime<s> / DateTime<ns> (negative raw values included): reflexive, antisymmetric, transitive, values ascending (sort_cmp) / descending (sort_cmp_rev), nulls last in both; random f64 / i64 values through the numeric cast table. \
         Non-trivial: triples with one or two nulls; random values that are null or outside a target's range; distinct = distinct serialised cases",
    )
    .assume("canonical nulls only (DESIGN 5.4); casts documented as panicking are outside the table (5.7): non-0/1 to bool, None to a plain integer, TimeDelta with months to i64, DateTime <-> TimeDelta");
    p.add(sub_enum("tables", tables, check_table));
    p.add(sub("comparators", 60000, 2000000, ord_case, check_ord));
    p.add(sub("random_numeric_casts", 30000, 1000000, rnd_case, check_rnd));
    main_for(p);
}
