//! C06 — rolling and lagging results never depend on later (or pre-window) data.
use proptest::prelude::*;
use serde::{Deserialize, Serialize};
use tvh::conv::{materialize, normalize};
use tvh::engine::*;
use tvh::gen::*;
use tvh::model::{expect_series, expect_series2, Stat, Stat2, Tri};
use tvh::rollcheck::{eval2, eval_plain, eval_valid};
use tvh::sut_map;

const INS: &[InT] = &[InT::F64, InT::OptF64, InT::I32, InT::F32, InT::OptI32, InT::I64];
const PLAIN_INS: &[InT] = &[InT::F64, InT::I32, InT::F32, InT::I64];
const OUTS: &[OutT] = &[OutT::F64, OutT::OptF64, OutT::F32, OutT::OptI32];

fn bits(s: &Series) -> Vec<u64> {
    s.iter().map(|v| v.map(|x| x.to_bits()).unwrap_or(u64::MAX)).collect()
}

fn null_free(mut c: RollCase) -> RollCase {
    for v in c.x.iter_mut() {
        if v.is_none() {
            *v = Some(0.0);
        }
    }
    c
}

fn eval(c: &RollCase, stat: Stat, valid: bool) -> Result<Series, Fail> {
    if valid { eval_valid(c, stat) } else { eval_plain(c, stat) }.map_err(|e| Fail {
        sig: "out-path".into(),
        detail: e,
    })
}

/// relation 1: evaluating on a prefix gives bit-for-bit the prefix of the full result
fn prefix_single(c: &RollCase, stat: Stat, valid: bool, obs: &mut Obs) -> CheckResult {
    let full = bits(&eval(c, stat, valid)?);
    let len = c.x.len();
    if full.len() != len {
        return fail("len", format!("output length {} for input length {}", full.len(), len));
    }
    let first_cut = if stat.cmp_family() && c.mp.is_none() { c.w.min(len + 1) } else { 0 };
    for cut in first_cut..=len {
        let mut pc = c.clone();
        pc.x.truncate(cut);
        let part = bits(&eval(&pc, stat, valid)?);
        if part.len() != cut {
            return fail("len", format!("output length {} for prefix length {}", part.len(), cut));
        }
        if let Some(i) = (0..cut).find(|i| part[*i] != full[*i]) {
            return fail(
                "lookahead",
                format!(
                    "ts_{}{}: output {} differs between prefix of length {} ({:?}) and the whole series ({:?})",
                    if valid { "v" } else { "" },
                    stat.name(),
                    i,
                    cut,
                    f64::from_bits(part[i]),
                    f64::from_bits(full[i])
                ),
            );
        }
        obs.compared += cut as u64;
    }
    obs.set_nontrivial(len > c.w && len >= 3);
    obs.class_if(len < c.w, "len<w");
    Ok(())
}

fn prefix_double(c: &Roll2Case, stat: Stat2, obs: &mut Obs) -> CheckResult {
    let run = |c: &Roll2Case| {
        eval2(c, stat).map_err(|e| Fail {
            sig: "out-path".into(),
            detail: e,
        })
    };
    let full = bits(&run(c)?);
    let len = c.x.len();
    if full.len() != len {
        return fail("len", format!("output length {} for input length {}", full.len(), len));
    }
    for cut in 0..=len {
        let mut pc = c.clone();
        pc.x.truncate(cut);
        pc.y.truncate(cut);
        let part = bits(&run(&pc)?);
        if part.len() != cut {
            return fail("len", format!("output length {} for prefix length {}", part.len(), cut));
        }
        if let Some(i) = (0..cut).find(|i| part[*i] != full[*i]) {
            return fail("lookahead", format!("ts_v{}: output {} differs between prefix of length {} and the whole series", stat.name(), i, cut));
        }
        obs.compared += cut as u64;
    }
    obs.set_nontrivial(len > c.w && len >= 3);
    Ok(())
}

#[derive(Clone, Debug, Serialize, Deserialize)]
struct HistCase {
    a: Series,
    b: Series,
    t: Series,
    w: usize,
    mp: Option<usize>,
    tin: InT,
    class: String,
}

fn hist_case(tier: Tier, ins: &'static [InT], min_w: usize, fill_nulls: bool) -> impl Strategy<Value = HistCase> {
    (raw_series_of(3usize..=tier.pick(60, 200), PRICE_CLASSES), in_types(ins), any::<u16>(), any::<u16>(), any::<u8>(), any::<u16>()).prop_map(
        move |(rs, tin, ws, hs, mm, ms)| {
            let (mut x, class) = series_of(&rs, tin);
            if fill_nulls {
                for v in x.iter_mut() {
                    if v.is_none() {
                        *v = Some(0.0);
                    }
                }
            }
            // signed zeros: 0.0 and -0.0 are equal values, so which of them a minimum / maximum reports
            // must not depend on the pre-window history either (float element types only)
            if matches!(tin, InT::F64 | InT::OptF64) && ms % 2 == 0 {
                for (i, v) in x.iter_mut().enumerate() {
                    if *v == Some(0.0) && (i * 7 + hs as usize) % 3 != 0 {
                        *v = Some(-0.0);
                    }
                }
            }
            let n = x.len();
            // w in min_w..=n/3+1, h in 0..=min(3w, (n-w)/2)
            let w = (min_w + idx(ws, n / 3 + 1)).max(1);
            let hmax = (3 * w).min(n.saturating_sub(w) / 2);
            let h = idx(hs, hmax + 1);
            let a = x[..h].to_vec();
            let b = x[h..2 * h].to_vec();
            let t = x[2 * h..].to_vec();
            let mp = match mp_of(w, mm, ms) {
                None if false => None,
                other => other,
            };
            HistCase {
                a,
                b,
                t,
                w,
                mp,
                tin,
                class,
            }
        },
    )
}

/// relation 2: replacing the pre-window history changes results by at most rounding error
fn history_single(h: &HistCase, stat: Stat, valid: bool, obs: &mut Obs) -> CheckResult {
    let mk = |pre: &Series| {
        let mut x = pre.clone();
        x.extend(h.t.iter().cloned());
        RollCase {
            x,
            w: h.w,
            mp: h.mp,
            tin: h.tin,
            tout: OutT::F64,
            class: String::new(),
            out_buf: false,
            p: 0.0,
        }
    };
    let (c1, c2) = (mk(&h.a), mk(&h.b));
    let (g1, g2) = (eval(&c1, stat, valid)?, eval(&c2, stat, valid)?);
    let (e1, e2) = (expect_series(stat, &c1.x, h.w, h.mp), expect_series(stat, &c2.x, h.w, h.mp));
    let hl = h.a.len();
    let name = format!("ts_{}{}", if valid { "v" } else { "" }, stat.name());
    for i in (hl + h.w).saturating_sub(1)..c1.x.len() {
        let (x1, x2) = (&e1[i], &e2[i]);
        if x1.null == Tri::Any || x2.null == Tri::Any {
            continue;
        }
        if g1[i].is_none() != g2[i].is_none() {
            return fail("history:mask", format!("{} at position {}: null-ness depends on the pre-window history ({:?} vs {:?})", name, i, g1[i], g2[i]));
        }
        let (v1, v2) = match (g1[i], g2[i]) {
            (Some(a), Some(b)) => (a, b),
            _ => continue,
        };
        if stat.exact() {
            if v1.to_bits() != v2.to_bits() {
                return fail("history:exact", format!("{} at position {}: {} vs {} under two pre-window histories", name, i, v1, v2));
            }
            obs.compared += 1;
            continue;
        }
        if x1.band || x2.band || x1.ill || x2.ill || x1.alts.is_empty() || x2.alts.is_empty() {
            obs.class("ill_or_band_skipped");
            continue;
        }
        let tol = x1.alts.iter().map(|a| a.1).fold(0.0, f64::max) + x2.alts.iter().map(|a| a.1).fold(0.0, f64::max);
        let err = (v1 - v2).abs();
        if !(err <= tol) {
            return fail("history:value", format!("{} at position {}: {:e} vs {:e} under two pre-window histories (tol {:e})", name, i, v1, v2, tol));
        }
        obs.compared += 1;
        if tol > 0.0 {
            obs.ratio(err / tol);
        }
    }
    let differ = h.a.iter().zip(h.b.iter()).filter(|(p, q)| p != q).count();
    obs.set_nontrivial(hl >= h.w && differ >= h.w);
    obs.class_if(hl == 0, "empty_history");
    Ok(())
}

#[derive(Clone, Debug, Serialize, Deserialize)]
struct Hist2Case {
    a1: Series,
    a2: Series,
    b1: Series,
    b2: Series,
    t1: Series,
    t2: Series,
    w: usize,
    mp: Option<usize>,
}

fn hist2_case(tier: Tier) -> impl Strategy<Value = Hist2Case> {
    (raw_pair(4usize..=tier.pick(60, 200)), any::<u16>(), any::<u16>(), any::<u8>(), any::<u16>()).prop_map(|(rp, ws, hs, mm, ms)| {
        let (x, y, _) = pair_of(&rp);
        let n = x.len();
        let w = 2 + idx(ws, n / 3 + 1);
        let hmax = (3 * w).min(n.saturating_sub(w) / 2);
        let h = idx(hs, hmax + 1);
        Hist2Case {
            a1: x[..h].to_vec(),
            a2: y[..h].to_vec(),
            b1: x[h..2 * h].to_vec(),
            b2: y[h..2 * h].to_vec(),
            t1: x[2 * h..].to_vec(),
            t2: y[2 * h..].to_vec(),
            w,
            mp: mp_of(w, mm, ms),
        }
    })
}

fn history_double(h: &Hist2Case, stat: Stat2, obs: &mut Obs) -> CheckResult {
    let mk = |p1: &Series, p2: &Series| {
        let mut x = p1.clone();
        x.extend(h.t1.iter().cloned());
        let mut y = p2.clone();
        y.extend(h.t2.iter().cloned());
        Roll2Case {
            x,
            y,
            w: h.w,
            mp: h.mp,
            class: String::new(),
            out_buf: false,
        }
    };
    let (c1, c2) = (mk(&h.a1, &h.a2), mk(&h.b1, &h.b2));
    let run = |c: &Roll2Case| {
        eval2(c, stat).map_err(|e| Fail {
            sig: "out-path".into(),
            detail: e,
        })
    };
    let (g1, g2) = (run(&c1)?, run(&c2)?);
    let (e1, e2) = (expect_series2(stat, &c1.x, &c1.y, h.w, h.mp), expect_series2(stat, &c2.x, &c2.y, h.w, h.mp));
    let hl = h.a1.len();
    for i in (hl + h.w).saturating_sub(1)..c1.x.len() {
        let (x1, x2) = (&e1[i], &e2[i]);
        if x1.null == Tri::Any || x2.null == Tri::Any {
            continue;
        }
        if g1[i].is_none() != g2[i].is_none() {
            return fail("history:mask", format!("ts_v{} at position {}: null-ness depends on the pre-window history ({:?} vs {:?})", stat.name(), i, g1[i], g2[i]));
        }
        let (v1, v2) = match (g1[i], g2[i]) {
            (Some(a), Some(b)) => (a, b),
            _ => continue,
        };
        if x1.band || x2.band || x1.ill || x2.ill || x1.alts.is_empty() || x2.alts.is_empty() {
            obs.class("ill_or_band_skipped");
            continue;
        }
        let tol = x1.alts.iter().map(|a| a.1).fold(0.0, f64::max) + x2.alts.iter().map(|a| a.1).fold(0.0, f64::max);
        let err = (v1 - v2).abs();
        if !(err <= tol) {
            return fail("history:value", format!("ts_v{} at position {}: {:e} vs {:e} under two pre-window histories (tol {:e})", stat.name(), i, v1, v2, tol));
        }
        obs.compared += 1;
        if tol > 0.0 {
            obs.ratio(err / tol);
        }
    }
    let differ = (0..hl).filter(|k| h.a1[*k] != h.b1[*k] || h.a2[*k] != h.b2[*k]).count();
    obs.set_nontrivial(hl >= h.w && differ >= h.w);
    Ok(())
}

#[derive(Clone, Debug, Serialize, Deserialize)]
struct LagCase {
    x: Series,
    n: i32,
    fill: Option<f64>,
    int: bool,
}

fn lag_case(tier: Tier) -> impl Strategy<Value = LagCase> {
    (raw_series(len_strategy(tier, 24, 80)), any::<u16>(), any::<u8>(), any::<bool>()).prop_map(|(rs, ns, fs, int)| {
        let (x, _) = series_of(&rs, if int { InT::I32 } else { InT::F64 });
        let n = idx(ns, x.len() + 4) as i32;
        let fill = match fs % 4 {
            0 => None,
            1 => Some(0.0),
            _ => Some((fs as f64) - 100.0),
        };
        LagCase { x, n, fill, int }
    })
}

#[derive(Clone, Copy, Debug)]
enum Lag {
    Shift,
    VShift,
    VDiff,
    VPct,
}

fn lag_eval(kind: Lag, c: &LagCase, x: &Series) -> Series {
    if c.int {
        let d: Vec<i32> = materialize(x);
        let f = c.fill.map(|v| v as i32);
        match kind {
            Lag::Shift => normalize(sut_map::shift(&d, c.n, f.unwrap_or(0))),
            Lag::VShift => normalize(sut_map::vshift(&d, c.n, Some(f.unwrap_or(0)))),
            Lag::VDiff => normalize(sut_map::vdiff(&d, c.n, Some(f.unwrap_or(0)))),
            Lag::VPct => normalize(sut_map::vpct_change(&d, c.n)),
        }
    } else {
        let d: Vec<f64> = materialize(x);
        match kind {
            Lag::Shift => normalize(sut_map::shift(&d, c.n, c.fill.unwrap_or(f64::NAN))),
            Lag::VShift => normalize(sut_map::vshift(&d, c.n, c.fill)),
            Lag::VDiff => normalize(sut_map::vdiff(&d, c.n, c.fill)),
            Lag::VPct => normalize(sut_map::vpct_change(&d, c.n)),
        }
    }
}

fn prefix_lag(kind: Lag, c: &LagCase, obs: &mut Obs) -> CheckResult {
    let full = bits(&lag_eval(kind, c, &c.x));
    let len = c.x.len();
    if full.len() != len {
        return fail("len", format!("{:?}: output length {} for input length {}", kind, full.len(), len));
    }
    for cut in 0..=len {
        let px: Series = c.x[..cut].to_vec();
        let part = bits(&lag_eval(kind, c, &px));
        if part.len() != cut {
            return fail("len", format!("{:?}: output length {} for prefix length {}", kind, part.len(), cut));
        }
        if let Some(i) = (0..cut).find(|i| part[*i] != full[*i]) {
            return fail("lookahead", format!("{:?} n={}: output {} differs between prefix of length {} and the whole series", kind, c.n, i, cut));
        }
        obs.compared += cut as u64;
    }
    obs.set_nontrivial(c.n >= 1 && (c.n as usize) < len);
    obs.class_if(c.n as usize >= len, "lag>=len");
    obs.class_if(c.n == 0, "lag=0");
    Ok(())
}

fn main() {
    let mut p = Property::new(
        "C06",
        "relation 1 (look-ahead): for every rolling entry point and shift/vshift/vdiff/vpct_change with lag n in 0..=len+3, the function is evaluated on EVERY prefix x[..c], c in 0..=len, and must equal the prefix of the full result bit for bit (any-NaN == any-NaN); relation 2 (pre-window independence): x1 = A++T, x2 = B++T with |A| = |B| = h in 0..=3w drawn from the same value class (bounded magnitude, DESIGN 5.2): for positions whose window lies inside T results agree within the sum of the two 5.9 bounds, exactly for min/max/arg/rank/minmaxnorm, and null-ness agrees. \
         Non-trivial: (1) len > w and len >= 3 (lag: 1 <= n < len); (2) h >= w and the two histories differ in at least w positions; distinct = distinct serialised cases",
    )
    .assume("finite histories of bounded magnitude (DESIGN 5.2); omitted min_periods of the extrema/rank family: cuts c >= w only (5.3)")
    .assume("relation 2 skips positions inside the EPS band or flagged ill-conditioned by the model");
    let valid_stats = [
        Stat::Sum,
        Stat::Mean,
        Stat::Ewm,
        Stat::Wma,
        Stat::Std,
        Stat::Var,
        Stat::Skew,
        Stat::Kurt,
        Stat::Fdiff(0.5),
        Stat::Min,
        Stat::Max,
        Stat::ArgMin,
        Stat::ArgMax,
        Stat::Rank { pct: false, rev: false },
        Stat::Rank { pct: true, rev: true },
        Stat::MinMaxNorm,
        Stat::ZScore,
        Stat::Reg,
        Stat::Tsf,
        Stat::RegSlope,
        Stat::RegIntercept,
        Stat::RegResidMean,
    ];
    for st in valid_stats {
        p.add(sub(
            &format!("prefix:ts_v{}", st.name()),
            1500,
            40000,
            |tier| roll_case(tier, INS, OUTS, 32, 96, 1),
            move |c: &RollCase, obs: &mut Obs| prefix_single(c, st, true, obs),
        ));
        if !matches!(st, Stat::Fdiff(_)) {
            p.add(sub(
                &format!("history:ts_v{}", st.name()),
                4000,
                150000,
                |tier| hist_case(tier, INS, 1, false),
                move |h: &HistCase, obs: &mut Obs| history_single(h, st, true, obs),
            ));
        }
    }
    let plain_stats = [Stat::Sum, Stat::Mean, Stat::Ewm, Stat::Wma, Stat::Std, Stat::Var, Stat::Skew, Stat::Kurt, Stat::Fdiff(0.75)];
    for st in plain_stats {
        p.add(sub(
            &format!("prefix:ts_{}", st.name()),
            1500,
            40000,
            |tier| roll_case(tier, PLAIN_INS, OUTS, 32, 96, 1).prop_map(null_free),
            move |c: &RollCase, obs: &mut Obs| prefix_single(c, st, false, obs),
        ));
        if !matches!(st, Stat::Fdiff(_)) {
            p.add(sub(
                &format!("history:ts_{}", st.name()),
                4000,
                150000,
                |tier| hist_case(tier, PLAIN_INS, 1, true),
                move |h: &HistCase, obs: &mut Obs| history_single(h, st, false, obs),
            ));
        }
    }
    let two = [
        Stat2::Cov,
        Stat2::Corr,
        Stat2::RegxAlpha,
        Stat2::RegxBeta,
        Stat2::RegxResidMean,
        Stat2::RegxResidStd,
        Stat2::RegxResidSkew,
        Stat2::RegxAllAlpha,
        Stat2::RegxAllBeta,
        Stat2::RegxAllSse,
    ];
    for st in two {
        p.add(sub(
            &format!("prefix:ts_v{}", st.name()),
            1500,
            40000,
            |tier| roll2_case(tier, 32, 96, 2),
            move |c: &Roll2Case, obs: &mut Obs| prefix_double(c, st, obs),
        ));
        p.add(sub(
            &format!("history:ts_v{}", st.name()),
            4000,
            150000,
            hist2_case,
            move |h: &Hist2Case, obs: &mut Obs| history_double(h, st, obs),
        ));
    }
    for (name, kind) in [("shift", Lag::Shift), ("vshift", Lag::VShift), ("vdiff", Lag::VDiff), ("vpct_change", Lag::VPct)] {
        p.add(sub(&format!("prefix:{}", name), 3000, 100000, lag_case, move |c: &LagCase, obs: &mut Obs| prefix_lag(kind, c, obs)));
    }
    main_for(p);
}
