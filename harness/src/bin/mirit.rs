//! Miri tier (supplementary oracle for C09 / C10, thorough only): a fixed, small number of
//! generated cases is interpreted by Miri, which reports any read of uninitialised memory or
//! out-of-bounds access. Besides the oracle-protected checks, each case also takes the *unprotected*
//! route a user could take in safe code (trusted collection after partial consumption; kernels
//! with a zero window), where a broken length announcement or an unwritten output slot is
//! undefined behaviour that only the interpreter can see.
//!   MIRIFLAGS=-Zmiri-deterministic-floats cargo +nightly miri run --no-default-features --bin mirit -- <pipeline|kernel> <seed>
//! Deterministic (xorshift from the seed argument), no file, clock or environment access.
//! Before each case a line `CASE <kind> <hex bytes>` is printed so that ./check can turn the case
//! that was running when Miri stopped into a replay artefact (same byte decoders as the fuzz targets).
use std::io::Write;

use tevec::prelude::{CollectTrustedToVec, RollingValidFeature};
use tvh::engine::Obs;
use tvh::fuzzable::{build_pipeline, check_kernel, check_pipeline, decode_kernel, decode_pipeline};

fn hex(b: &[u8]) -> String {
    b.iter().map(|x| format!("{:02x}", x)).collect()
}

fn main() {
    let args: Vec<String> = std::env::args().collect();
    let kind = args.get(1).cloned().unwrap_or_else(|| "pipeline".into());
    let seed: u64 = args.get(2).and_then(|s| s.parse().ok()).unwrap_or(0);
    let n: usize = args.get(3).and_then(|s| s.parse().ok()).unwrap_or(80);
    let mut s = seed.wrapping_mul(0x9E3779B97F4A7C15) ^ 0xD1B54A32D192ED03 | 1;
    let mut bytes = |k: usize| -> Vec<u8> {
        (0..k)
            .map(|_| {
                s ^= s << 13;
                s ^= s >> 7;
                s ^= s << 17;
                (s >> 24) as u8
            })
            .collect()
    };
    let out = std::io::stdout();
    for _ in 0..n {
        if kind == "pipeline" {
            let raw = bytes(40);
            println!("CASE pipeline {}", hex(&raw));
            out.lock().flush().ok();
            let c = decode_pipeline(&raw);
            let mut obs = Obs::default();
            if let Err(f) = check_pipeline(&c, &mut obs) {
                println!("ORACLE-VIOLATION property=C09 {} -- {}", f.sig, f.detail);
                std::process::exit(1);
            }
            // unprotected route: pop a few items, then trust the announced length
            let d: Vec<f64> = c.x.iter().map(|v| v.unwrap_or(f64::NAN)).collect();
            let mut it = build_pipeline(&d, &c.ops);
            for _ in 0..c.pops {
                let _ = it.next();
            }
            let v: Vec<f64> = it.collect_trusted_to_vec();
            let acc: f64 = v.iter().map(|x| if x.is_nan() { 0.0 } else { *x }).sum();
            std::hint::black_box(acc);
        } else {
            let raw = bytes(28);
            println!("CASE kernel {}", hex(&raw));
            out.lock().flush().ok();
            let mut k = decode_kernel(&raw);
            k.c.x.truncate(10);
            let mut obs = Obs::default();
            if let Err(f) = check_kernel(&k, &mut obs) {
                println!("ORACLE-VIOLATION property=C10 {} -- {}", f.sig, f.detail);
                std::process::exit(1);
            }
            // unprotected route: degenerate window 0 (a clean panic is fine, uninitialised output is not)
            let d: Vec<f64> = k.c.x.iter().map(|v| v.unwrap_or(f64::NAN)).collect();
            let r = std::panic::catch_unwind(|| {
                let o: Vec<f64> = d.ts_vsum(0, Some(0));
                o.iter().map(|x| if x.is_nan() { 0.0 } else { *x }).sum::<f64>()
            });
            std::hint::black_box(r.ok());
        }
    }
    println!("miri tier ({}): {} generated cases interpreted without undefined behaviour", kind, n);
}
