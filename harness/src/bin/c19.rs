//! C19 — generators and collectors build exactly the requested sequence.
use std::collections::VecDeque;

use proptest::prelude::*;
use serde::{Deserialize, Serialize};
use tevec::export::ndarray::Array1;
use tevec::prelude::{terr, TResult, UninitVec, Vec1, Vec1Collect, Vec1Create, Vec1OptCollect, Vec1TryCollect, WriteTrustIter};
use tvh::chk::{reset_log, take_log, ChkOut};
use tvh::engine::{fail, main_for, sub, CheckResult, Obs, Property, Tier};

#[derive(Clone, Debug, Serialize, Deserialize)]
struct GCase {
    start: i32,
    end: i32,
    step: i32,
    n: usize,
    scale: u8,
    omit: u8,
}

fn g_case(_: Tier) -> impl Strategy<Value = GCase> {
    (-40i32..=40, -40i32..=40, prop_oneof![1i32..=7, -7i32..=-1], 0usize..=40, 0u8..3, any::<u8>()).prop_map(|(start, end, step, n, scale, omit)| GCase { start, end, step, n, scale, omit })
}

fn progression(start: i64, end: i64, step: i64) -> Vec<i64> {
    let mut out = vec![];
    let mut v = start;
    while (step > 0 && v < end) || (step < 0 && v > end) {
        out.push(v);
        v += step;
    }
    out
}

fn check_range(c: &GCase, obs: &mut Obs) -> CheckResult {
    let want = progression(c.start as i64, c.end as i64, c.step as i64);
    let desc = format!("range({}, {}, {})", c.start, c.end, c.step);
    obs.set_nontrivial(want.is_empty() || (c.end - c.start) % c.step != 0 || c.step < 0);
    obs.class_if(want.is_empty(), "empty_span");
    obs.class_if((c.end - c.start) % c.step != 0, "non_divisible");
    obs.class_if(c.step < 0, "negative_step");
    macro_rules! int_range {
        ($T:ty, $O:ty, $name:expr) => {{
            let v: $O = Vec1Create::range(Some(c.start as $T), c.end as $T, Some(c.step as $T));
            let got: Vec<i64> = v.iter().map(|x| *x as i64).collect();
            if got != want {
                return fail(format!("range<{}>:{}", $name, if got.len() != want.len() { "count" } else { "content" }), format!("{} as {} = {:?}, arithmetic progression is {:?}", desc, $name, got, want));
            }
        }};
    }
    int_range!(i32, Vec<i32>, "i32");
    int_range!(i64, VecDeque<i64>, "i64");
    int_range!(i64, Array1<i64>, "i64");
    if c.start >= 0 && c.end >= 0 && c.step > 0 {
        int_range!(usize, Vec<usize>, "usize");
    }
    // floats on a dyadic grid (membership is exact)
    let sc = [1.0, 0.5, 0.125][c.scale as usize];
    let wantf: Vec<f64> = want.iter().map(|v| *v as f64 * sc).collect();
    let v: Vec<f64> = Vec1Create::range(Some(c.start as f64 * sc), c.end as f64 * sc, Some(c.step as f64 * sc));
    if v != wantf {
        return fail(format!("range<f64>:{}", if v.len() != wantf.len() { "count" } else { "content" }), format!("{} x {} as f64 = {:?}, progression is {:?}", desc, sc, v, wantf));
    }
    let v: Array1<f32> = Vec1Create::range(Some(c.start as f32 * sc as f32), c.end as f32 * sc as f32, Some(c.step as f32 * sc as f32));
    if v.iter().map(|x| *x as f64).collect::<Vec<_>>() != wantf {
        return fail("range<f32>", format!("{} x {} as f32 = {:?}, progression is {:?}", desc, sc, v, wantf));
    }
    let v: Vec<Option<f64>> = Vec1Create::range(Some(c.start as f64 * sc), c.end as f64 * sc, Some(c.step as f64 * sc));
    if v != wantf.iter().map(|x| Some(*x)).collect::<Vec<_>>() {
        return fail("range<Option<f64>>", format!("{} x {} as Option<f64> = {:?}", desc, sc, v));
    }
    // wide integers: spans beyond 2^53, where a count taken through f64 loses the partial last step
    {
        let sh = 50 + 3 * c.scale as u32 + (c.omit as u32 % 3); // 2^50 .. 2^58
        let big = 1i128 << sh;
        let r = (c.n as i128 % 3) - 1;
        let (a, b, st) = (c.start as i128 * big, c.end as i128 * big + r, c.step as i128 * big);
        let mut wantw: Vec<i128> = vec![];
        let mut v = a;
        while (st > 0 && v < b) || (st < 0 && v > b) {
            wantw.push(v);
            v += st;
        }
        let fits = |x: i128| x > i64::MIN as i128 && x < i64::MAX as i128;
        // (the span itself must be representable in the element type: the library computes end - start)
        if fits(a) && fits(b) && fits(st) && fits(b - a) && wantw.iter().all(|x| fits(*x + st)) {
            let got: Vec<i64> = Vec1Create::range(Some(a as i64), b as i64, Some(st as i64));
            if got.iter().map(|x| *x as i128).collect::<Vec<_>>() != wantw {
                return fail(format!("range<i64>:wide:{}", if got.len() != wantw.len() { "count" } else { "content" }), format!("range({}, {}, {}) as i64 = {:?}, arithmetic progression is {:?}", a, b, st, got, wantw));
            }
            if a >= 0 && b >= 0 && st > 0 {
                let got: Vec<u64> = Vec1Create::range(Some(a as u64), b as u64, Some(st as u64));
                if got.iter().map(|x| *x as i128).collect::<Vec<_>>() != wantw {
                    return fail("range<u64>:wide", format!("range({}, {}, {}) as u64 = {:?}, arithmetic progression is {:?}", a, b, st, got, wantw));
                }
            }
            obs.class("wide_integer_range");
        }
    }
    // omitted start (0) / omitted step (1) for float element types: non-integer ends and starts
    {
        let endf = c.end as f64 * sc + 0.5 * (c.n % 2) as f64 * sc; // on the dyadic grid, often non-integer
        let count = |a: f64, b: f64, st: f64| -> Vec<f64> {
            let mut out = vec![];
            let mut k = 0.0;
            while (st > 0.0 && a + st * k < b) || (st < 0.0 && a + st * k > b) {
                out.push(a + st * k);
                k += 1.0;
            }
            out
        };
        let v: Vec<f64> = Vec1Create::range(None, endf, None);
        if v != count(0.0, endf, 1.0) {
            return fail("range<f64>:defaults", format!("range(None, {}, None) as f64 = {:?}, progression is {:?}", endf, v, count(0.0, endf, 1.0)));
        }
        let v: Array1<f32> = Vec1Create::range(None, endf as f32, None);
        if v.iter().map(|x| *x as f64).collect::<Vec<_>>() != count(0.0, endf, 1.0) {
            return fail("range<f32>:defaults", format!("range(None, {}, None) as f32 = {:?}", endf, v));
        }
        let startf = c.start as f64 * sc;
        let v: Vec<Option<f64>> = Vec1Create::range(Some(startf), endf, None);
        if v != count(startf, endf, 1.0).into_iter().map(Some).collect::<Vec<_>>() {
            return fail("range<Option<f64>>:default-step", format!("range({}, {}, None) = {:?}", startf, endf, v));
        }
        let stf = c.step as f64 * sc;
        let v: Vec<f64> = Vec1Create::range(None, endf, Some(stf));
        if v != count(0.0, endf, stf) {
            return fail("range<f64>:default-start", format!("range(None, {}, {}) = {:?}, progression is {:?}", endf, stf, v, count(0.0, endf, stf)));
        }
    }
    // omitted start (0) / omitted step (1)
    if c.omit % 2 == 0 && c.end >= 0 {
        let v: Vec<i32> = Vec1Create::range(None, c.end, None);
        if v != (0..c.end).collect::<Vec<_>>() {
            return fail("range:defaults", format!("range(None, {}, None) = {:?}", c.end, v));
        }
    }
    Ok(())
}

fn check_linspace(c: &GCase, obs: &mut Obs) -> CheckResult {
    let (a, b, n) = (c.start as f64 * 0.37, c.end as f64 * 1.3, c.n);
    obs.set_nontrivial(n >= 2 && a != b);
    obs.class_if(n == 0, "n=0");
    obs.class_if(n == 1, "n=1");
    let v: Vec<f64> = Vec1Create::linspace(Some(a), b, n);
    if v.len() != n {
        return fail("linspace<f64>:count", format!("linspace({}, {}, {}) has {} elements", a, b, n, v.len()));
    }
    if n >= 1 && v[0] != a {
        return fail("linspace<f64>:start", format!("linspace({}, {}, {}) starts at {}", a, b, n, v[0]));
    }
    if n >= 2 {
        let step = (b - a) / (n - 1) as f64;
        for (k, x) in v.iter().enumerate() {
            let want = a + step * k as f64;
            if (x - want).abs() > 4.0 * f64::EPSILON * want.abs().max(a.abs()).max(b.abs()) {
                return fail("linspace<f64>:constant-step", format!("linspace({}, {}, {})[{}] = {}, start + k*step = {}", a, b, n, k, x, want));
            }
        }
        let last = v[n - 1];
        if (last - b).abs() > 4.0 * f64::EPSILON * b.abs().max(a.abs()) {
            return fail("linspace<f64>:end", format!("linspace({}, {}, {}) ends at {} instead of {}", a, b, n, last, b));
        }
    }
    // integers: constant (truncated) step
    let v: VecDeque<i64> = Vec1Create::linspace(Some(c.start as i64), c.end as i64, n);
    if v.len() != n {
        return fail("linspace<i64>:count", format!("linspace({}, {}, {}) has {} elements", c.start, c.end, n, v.len()));
    }
    if n >= 1 {
        let step = if n > 1 { (c.end as i64 - c.start as i64) / (n as i64 - 1) } else { 0 };
        for (k, x) in v.iter().enumerate() {
            if *x != c.start as i64 + step * k as i64 {
                return fail("linspace<i64>:constant-step", format!("linspace({}, {}, {})[{}] = {}", c.start, c.end, n, k, x));
            }
        }
    }
    let v: Array1<Option<f64>> = Vec1Create::linspace(None, b, n);
    if v.len() != n || (n >= 1 && v[0] != Some(0.0)) {
        return fail("linspace:default-start", format!("linspace(None, {}, {}) = {:?}", b, n, v));
    }
    // full / empty
    let f: Vec<i32> = Vec1::full(n, c.step);
    let g: VecDeque<f64> = Vec1::full(n, a);
    let h: Array1<Option<i32>> = Vec1::full(n, if c.omit % 3 == 0 { None } else { Some(c.step) });
    if f != vec![c.step; n] || g.len() != n || g.iter().any(|x| *x != a) || h.len() != n || h.iter().any(|x| *x != if c.omit % 3 == 0 { None } else { Some(c.step) }) {
        return fail("full", format!("full({}, ..) wrong", n));
    }
    let e1: Vec<f64> = Vec1::empty();
    let e2: VecDeque<i32> = Vec1::empty();
    let e3: Array1<f64> = Vec1::empty();
    if !e1.is_empty() || !e2.is_empty() || e3.len() != 0 {
        return fail("empty", "empty() is not empty");
    }
    Ok(())
}

// ---- collectors

#[derive(Clone, Debug, Serialize, Deserialize)]
struct CCase {
    items: Vec<Option<i32>>,
    err1: Option<usize>,
    err2: Option<usize>,
}

fn c_case(_: Tier) -> impl Strategy<Value = CCase> {
    (proptest::collection::vec(proptest::option::weighted(0.8, -100i32..100), 0..=40), any::<u16>(), any::<u16>(), 0u8..4).prop_map(|(items, a, b, m)| {
        let n = items.len();
        let (err1, err2) = if n == 0 || m == 0 {
            (None, None)
        } else {
            let p1 = a as usize % n;
            let p2 = b as usize % n;
            if m == 1 || p1 == p2 { (Some(p1), None) } else { (Some(p1.min(p2)), Some(p1.max(p2))) }
        };
        CCase { items, err1, err2 }
    })
}

fn check_collect(c: &CCase, obs: &mut Obs) -> CheckResult {
    let plain: Vec<i32> = c.items.iter().map(|v| v.unwrap_or(-1)).collect();
    let n = plain.len();
    obs.set_nontrivial(c.err1.map(|p| p > 0).unwrap_or(false) || n >= 2);
    obs.class_if(c.err1.is_some(), "with_error");
    obs.class_if(c.err2.is_some(), "two_errors");
    obs.class_if(n == 0, "empty_iterator");
    macro_rules! same {
        ($what:expr, $got:expr) => {{
            let got: Vec<i32> = $got;
            if got != plain {
                return fail(format!("collect:{}", $what), format!("{} of {:?} = {:?}", $what, plain, got));
            }
        }};
    }
    let a: Vec<i32> = plain.clone().into_iter().collect_vec1();
    same!("collect_vec1<Vec>", a);
    let a: VecDeque<i32> = plain.clone().into_iter().collect_vec1();
    same!("collect_vec1<VecDeque>", a.into_iter().collect());
    let a: Array1<i32> = plain.clone().into_iter().collect_vec1();
    same!("collect_vec1<Array1>", a.to_vec());
    let a: Vec<i32> = plain.clone().into_iter().collect_trusted_vec1();
    same!("collect_trusted_vec1<Vec>", a);
    let a: VecDeque<i32> = plain.clone().into_iter().collect_trusted_vec1();
    same!("collect_trusted_vec1<VecDeque>", a.into_iter().collect());
    let a: Array1<i32> = plain.clone().into_iter().collect_trusted_vec1();
    same!("collect_trusted_vec1<Array1>", a.to_vec());
    // with_len from an iterator that does not know its length
    let a: Vec<i32> = plain.iter().cloned().filter(|_| true).collect_vec1_with_len(n);
    same!("collect_vec1_with_len<Vec>", a);
    let a: Array1<i32> = plain.iter().cloned().filter(|_| true).collect_vec1_with_len(n);
    same!("collect_vec1_with_len<Array1>", a.to_vec());
    // optional -> null encoded
    let o: Vec<f64> = c.items.iter().map(|v| v.map(|x| x as f64)).collect::<Vec<_>>().collect_vec1_opt();
    let o2: VecDeque<Option<i32>> = c.items.iter().map(|v| v.map(Some)).collect::<Vec<_>>().collect_vec1_opt();
    for (i, v) in c.items.iter().enumerate() {
        let ok = match v {
            None => o[i].is_nan() && o2[i].is_none(),
            Some(x) => o[i] == *x as f64 && o2[i] == Some(*x),
        };
        if !ok {
            return fail("collect_vec1_opt", format!("collect_vec1_opt of {:?} at {}: {:?} / {:?}", c.items, i, o[i], o2[i]));
        }
    }
    if o.len() != n || o2.len() != n {
        return fail("collect_vec1_opt:len", "length");
    }
    // element types without a null: nothing to encode as long as every item is Some (incl. no items)
    {
        let all_some: Vec<Option<i32>> = plain.iter().map(|v| Some(*v)).collect();
        let g: Vec<i32> = all_some.clone().collect_vec1_opt();
        let g2: Array1<i64> = all_some.iter().map(|v| v.map(|x| x as i64)).collect::<Vec<_>>().collect_vec1_opt();
        let g3: VecDeque<usize> = all_some.iter().map(|v| v.map(|x| (x + 1000) as usize)).collect::<Vec<_>>().collect_vec1_opt();
        let g4: Vec<bool> = all_some.iter().map(|v| v.map(|x| x > 0)).collect::<Vec<_>>().collect_vec1_opt();
        if g != plain || g2.to_vec() != plain.iter().map(|x| *x as i64).collect::<Vec<_>>() || g3.iter().cloned().collect::<Vec<_>>() != plain.iter().map(|x| (*x + 1000) as usize).collect::<Vec<_>>() || g4 != plain.iter().map(|x| *x > 0).collect::<Vec<_>>() {
            return fail("collect_vec1_opt:non-nullable", format!("collect_vec1_opt of all-Some items {:?} into integer / bool containers: {:?} {:?} {:?} {:?}", plain, g, g2, g3, g4));
        }
    }
    // the same collector from sources whose size hint is only an upper bound (filter, take_while, flat_map)
    let keep = |v: &Option<f64>| v.map(|x| (x as i64).rem_euclid(3) != 0).unwrap_or(true);
    let want: Vec<Option<f64>> = c.items.iter().map(|v| v.map(|x| x as f64)).filter(keep).collect();
    let opt_same = |what: &str, got: Vec<f64>| -> CheckResult {
        if got.len() != want.len() || got.iter().zip(want.iter()).any(|(g, w)| match w {
            None => !g.is_nan(),
            Some(w) => g != w,
        }) {
            return fail(format!("collect_vec1_opt:{}", what), format!("collect_vec1_opt from a {} source: {:?}, expected {:?}", what, got, want));
        }
        Ok(())
    };
    let src = || c.items.iter().map(|v| v.map(|x| x as f64));
    let g: Vec<f64> = src().filter(keep).collect_vec1_opt();
    opt_same("filter<Vec>", g)?;
    let g: VecDeque<f64> = src().filter(keep).collect_vec1_opt();
    opt_same("filter<VecDeque>", g.into_iter().collect())?;
    let g: Array1<f64> = src().filter(keep).collect_vec1_opt();
    opt_same("filter<Array1>", g.to_vec())?;
    let g: Vec<f64> = src().flat_map(|v| if keep(&v) { Some(v) } else { None }).collect_vec1_opt();
    opt_same("flat_map<Vec>", g)?;
    let cut = c.err1.unwrap_or(n / 2);
    let g: Vec<f64> = src().enumerate().take_while(|(i, _)| *i < cut).map(|(_, v)| v).collect_vec1_opt();
    let w2: Vec<Option<f64>> = src().take(cut).collect();
    if g.len() != w2.len() || g.iter().zip(w2.iter()).any(|(g, w)| w.map_or(!g.is_nan(), |w| *g != w)) {
        return fail("collect_vec1_opt:take_while<Vec>", format!("collect_vec1_opt from a take_while source: {:?}, expected {:?}", g, w2));
    }
    // and the plain collector from such sources
    let g: Vec<i32> = plain.iter().cloned().filter(|v| v % 3 != 0).collect_vec1();
    if g != plain.iter().cloned().filter(|v| v % 3 != 0).collect::<Vec<i32>>() {
        return fail("collect_vec1:filter<Vec>", format!("collect_vec1 from a filter source: {:?}", g));
    }
    let g: Array1<i32> = plain.iter().cloned().filter(|v| v % 3 != 0).collect_vec1();
    if g.to_vec() != plain.iter().cloned().filter(|v| v % 3 != 0).collect::<Vec<i32>>() {
        return fail("collect_vec1:filter<Array1>", format!("collect_vec1 from a filter source: {:?}", g));
    }
    // fallible collection: first error wins
    let mk = || -> Vec<TResult<i32>> {
        plain
            .iter()
            .enumerate()
            .map(|(i, v)| {
                if Some(i) == c.err1 {
                    Err(terr!("first-error"))
                } else if Some(i) == c.err2 {
                    Err(terr!("second-error"))
                } else {
                    Ok(*v)
                }
            })
            .collect()
    };
    macro_rules! fallible {
        ($what:expr, $r:expr, $conv:expr) => {{
            match ($r, c.err1) {
                (Ok(v), None) => {
                    let got: Vec<i32> = $conv(v);
                    if got != plain {
                        return fail(format!("try_collect:{}:content", $what), format!("{} = {:?}", $what, got));
                    }
                },
                (Err(e), Some(_)) => {
                    if !e.to_string().contains("first-error") {
                        return fail(format!("try_collect:{}:not-first-error", $what), format!("{} returned {:?} although an earlier item failed first", $what, e.to_string()));
                    }
                },
                (Ok(_), Some(p)) => return fail(format!("try_collect:{}:error-lost", $what), format!("{} succeeded although item {} is an error", $what, p)),
                (Err(e), None) => return fail(format!("try_collect:{}:spurious-error", $what), format!("{} failed without an error item: {}", $what, e)),
            }
        }};
    }
    let r: TResult<Vec<i32>> = mk().try_collect_vec1();
    fallible!("try_collect_vec1<Vec>", r, |v: Vec<i32>| v);
    let r: TResult<VecDeque<i32>> = mk().try_collect_vec1();
    fallible!("try_collect_vec1<VecDeque>", r, |v: VecDeque<i32>| v.into_iter().collect());
    let r: TResult<Array1<i32>> = mk().try_collect_vec1();
    fallible!("try_collect_vec1<Array1>", r, |v: Array1<i32>| v.to_vec());
    let r: TResult<Vec<i32>> = mk().try_collect_trusted_vec1();
    fallible!("try_collect_trusted_vec1<Vec>", r, |v: Vec<i32>| v);
    let r: TResult<VecDeque<i32>> = mk().try_collect_trusted_vec1();
    fallible!("try_collect_trusted_vec1<VecDeque>", r, |v: VecDeque<i32>| v.into_iter().collect());
    let r: TResult<Array1<i32>> = mk().try_collect_trusted_vec1();
    fallible!("try_collect_trusted_vec1<Array1>", r, |v: Array1<i32>| v.to_vec());
    Ok(())
}

// ---- write / write_trust_iter into an uninitialised buffer

#[derive(Clone, Debug, Serialize, Deserialize)]
struct WCase {
    buf_len: usize,
    iter_len: usize,
}

fn w_case(_: Tier) -> impl Strategy<Value = WCase> {
    (0usize..=20, any::<u8>(), 0usize..=24).prop_map(|(buf_len, m, other)| WCase {
        buf_len,
        iter_len: match m % 4 {
            0 => 0,
            1 => 1,
            2 => buf_len,
            _ => other,
        },
    })
}

fn check_write(c: &WCase, obs: &mut Obs) -> CheckResult {
    let items: Vec<i32> = (0..c.iter_len as i32).map(|i| 100 + i).collect();
    obs.set_nontrivial(c.buf_len != c.iter_len);
    obs.class_if(c.buf_len == 0, "empty_buffer");
    obs.class_if(c.iter_len == 1 && c.buf_len > 1, "broadcast");
    obs.class_if(c.buf_len != c.iter_len && c.iter_len != 1 && c.buf_len != 0, "length_mismatch");
    for via_write in [true, false] {
        reset_log();
        let mut buf = <ChkOut<i32> as Vec1<i32>>::uninit(c.buf_len);
        let r = {
            let mut r = <ChkOut<i32> as Vec1<i32>>::uninit_ref_mut(&mut buf);
            if via_write {
                items.clone().into_iter().write(&mut r)
            } else {
                use tevec::prelude::UninitRefMut;
                r.write_trust_iter(items.clone().into_iter())
            }
        };
        let written = buf.written();
        let log = take_log();
        let what = if via_write { "write" } else { "write_trust_iter" };
        if let Some(v) = log.violations.first() {
            return fail(format!("{}:log", what), format!("{} of {} items into a buffer of {}: {}", what, c.iter_len, c.buf_len, v));
        }
        let nwritten = written.iter().filter(|w| **w).count();
        if c.buf_len == 0 {
            if r.is_err() {
                return fail(format!("{}:empty-buffer", what), "writing into an empty buffer must be Ok");
            }
        } else if c.iter_len == c.buf_len || c.iter_len == 1 {
            if r.is_err() || nwritten != c.buf_len || log.usets != c.buf_len as u64 {
                return fail(format!("{}:incomplete", what), format!("{} of {} items into a buffer of {}: result {:?}, {} slots written with {} writes", what, c.iter_len, c.buf_len, r.is_ok(), nwritten, log.usets));
            }
            let vals = buf.values();
            for (i, v) in vals.iter().enumerate() {
                let want = if c.iter_len == c.buf_len { 100 + i as i32 } else { 100 };
                if **v.as_ref().unwrap() != want {
                    return fail(format!("{}:content", what), format!("slot {} holds {:?}, expected {}", i, v, want));
                }
            }
            let out = unsafe { buf.assume_init() };
            if out.0.len() != c.buf_len {
                return fail(format!("{}:len", what), "assume_init length");
            }
        } else {
            if r.is_ok() {
                return fail(format!("{}:mismatch-accepted", what), format!("{} of {} items into a buffer of {} succeeded", what, c.iter_len, c.buf_len));
            }
            if nwritten != 0 || log.usets != 0 {
                return fail(format!("{}:partial-write-on-error", what), format!("{} of {} items into a buffer of {} failed after writing {} slots", what, c.iter_len, c.buf_len, nwritten));
            }
        }
    }
    Ok(())
}

/// write / write_trust_iter into the REAL caller-supplied buffers: a physically wrapped VecDeque and a
/// strided / reversed ndarray view inside a padded allocation (both pre-filled with a sentinel, so
/// reading back is defined). Same contract as for the instrumented buffer: all slots or none.
fn check_write_real(c: &WCase, obs: &mut Obs) -> CheckResult {
    use std::mem::MaybeUninit;
    use tevec::export::ndarray::s;
    use tevec::prelude::UninitRefMut;
    const SENT: i32 = -777;
    let items: Vec<i32> = (0..c.iter_len as i32).map(|i| 100 + i).collect();
    let expect_ok = c.buf_len == 0 || c.iter_len == c.buf_len || c.iter_len == 1;
    let want: Vec<i32> = if c.buf_len == 0 {
        vec![]
    } else if c.iter_len == c.buf_len {
        items.clone()
    } else if c.iter_len == 1 {
        vec![100; c.buf_len]
    } else {
        vec![SENT; c.buf_len]
    };
    for via_write in [true, false] {
        let what = if via_write { "write" } else { "write_trust_iter" };
        // (a) wrapped deque
        let mut dq: VecDeque<MaybeUninit<i32>> = VecDeque::with_capacity(c.buf_len.max(1));
        let cap = dq.capacity();
        let r = if c.buf_len == 0 { 0 } else { (1 + c.iter_len % 3) % cap.max(1) };
        for _ in 0..r {
            dq.push_back(MaybeUninit::new(SENT));
        }
        for _ in 0..r {
            dq.pop_front();
        }
        for _ in 0..c.buf_len {
            dq.push_back(MaybeUninit::new(SENT));
        }
        let wrapped = !dq.as_slices().1.is_empty();
        let res = {
            let mut rf = &mut dq;
            if via_write { items.clone().into_iter().write(&mut rf) } else { rf.write_trust_iter(items.clone().into_iter()) }
        };
        let got: Vec<i32> = dq.iter().map(|v| unsafe { v.assume_init() }).collect();
        if res.is_ok() != expect_ok || got != want {
            return fail(format!("{}:vecdeque-buffer", what), format!("{} of {} items into a {} VecDeque buffer of {}: result ok = {}, buffer {:?}, expected ok = {}, {:?}", what, c.iter_len, if wrapped { "wrapped" } else { "contiguous" }, c.buf_len, res.is_ok(), got, expect_ok, want));
        }
        obs.class_if(wrapped, "deque_wrapped");
        // (b) strided / reversed ndarray view
        let step = [2isize, -1, 3, -2, 1][(c.buf_len + c.iter_len) % 5];
        let st = step.unsigned_abs();
        let plen = if c.buf_len == 0 { 0 } else { (c.buf_len - 1) * st + 1 };
        let pad = c.buf_len + 2;
        let mut parent: Array1<MaybeUninit<i32>> = Array1::from_elem(plen + 2 * pad, MaybeUninit::new(SENT));
        let res = {
            let mut view = parent.slice_mut(s![pad..pad + plen;step]);
            if via_write { items.clone().into_iter().write(&mut view) } else { view.write_trust_iter(items.clone().into_iter()) }
        };
        let got: Vec<i32> = parent.slice(s![pad..pad + plen;step]).iter().map(|v| unsafe { v.assume_init() }).collect();
        let touched = parent.iter().filter(|v| unsafe { v.assume_init() } != SENT).count();
        if res.is_ok() != expect_ok || got != want || touched != want.iter().filter(|v| **v != SENT).count() {
            return fail(format!("{}:ndarray-view-buffer", what), format!("{} of {} items into an ndarray view (step {}) of {}: result ok = {}, view {:?} ({} cells of the allocation touched), expected ok = {}, {:?}", what, c.iter_len, step, c.buf_len, res.is_ok(), got, touched, expect_ok, want));
        }
    }
    obs.set_nontrivial(c.buf_len >= 2);
    Ok(())
}

fn main() {
    let mut p = Property::new(
        "C19",
        "range cases = start/end in -40..=40, step in +-1..=7 for i32 / i64 / usize (forward), f64 / f32 / Option<f64> on dyadic grids (x1, x0.5, x0.125), into Vec / VecDeque / Array1: content must equal the arithmetic progression strictly before end in the direction of step; linspace n in 0..=40: exactly n elements, first == start, constant step, last within 4 ulp of end (floats), truncated constant step (ints); full / empty. \
         collector cases = iterators of 0..=40 items with 0, 1 or 2 error positions: collect_vec1 / collect_trusted_vec1 / collect_vec1_with_len / collect_vec1_opt / try_collect_vec1 / try_collect_trusted_vec1 into Vec, VecDeque, Array1 preserve order and content and return the first error. \
         write cases = buffer length 0..=20 x iterator length {0, 1, len, other} through write and write_trust_iter into an instrumented uninitialised buffer: every slot written exactly once (broadcast for a single item), or Err with zero writes, Ok for an empty buffer. \
         Non-trivial = non-divisible or empty span or negative step; n >= 2; an error not at position 0 (or >= 2 items); buffer / iterator length mismatch; distinct = distinct serialised cases",
    );
    p.add(sub("range", 20000, 800000, g_case, check_range));
    p.add(sub("linspace_full_empty", 20000, 800000, g_case, check_linspace));
    p.add(sub("collectors", 20000, 600000, c_case, check_collect));
    p.add(sub("write_uninit", 5000, 50000, w_case, check_write));
    p.add(tvh::engine::canary(sub("write_real_buffers", 2000, 20000, w_case, check_write_real)));
    main_for(p);
}
