//! C14 — binning assigns the unique enclosing bin; run de-duplication keeps run ends.
use proptest::prelude::*;
use serde::{Deserialize, Serialize};
use tevec::prelude::{IsNone, Keep, MapValidBasic, Number, TIter, TResult, Vec1View};
use tvh::engine::{fail, main_for, sub, CheckResult, Obs, Property, Tier};
use tvh::model_map::{cut_index, unique_idx};

#[derive(Clone, Copy, Debug, PartialEq, Serialize, Deserialize)]
enum VT {
    I32,
    I64,
    F64,
}

/// symbolic value relative to the edges, resolved per value type
#[derive(Clone, Copy, Debug, PartialEq, Serialize, Deserialize)]
enum Sym {
    Null,
    Edge(usize),
    Above(usize), // next representable value above edge k
    Below(usize),
    TypeMin,
    TypeMax,
    PosInf, // f64 only (mapped to TypeMax for integers)
    NegInf,
    Plain(i32),
}

#[derive(Clone, Debug, Serialize, Deserialize)]
struct CutCase {
    vt: VT,
    edges: Vec<i32>,
    vals: Vec<Sym>,
    nlabels: usize,
    right: bool,
    add_bounds: bool,
    label_kind: u8, // 0: Option<i32>, 1: f64, 2: i32
}

fn cut_case(_t: Tier) -> impl Strategy<Value = CutCase> {
    (
        0usize..3,
        proptest::collection::vec(-6i32..=6, 0..=5),
        any::<bool>(),
        proptest::collection::vec((0u8..12, any::<u8>(), -9i32..=9), 0..=14),
        0usize..=6,
        any::<u8>(),
        any::<bool>(),
        any::<bool>(),
        0u8..3,
    )
        .prop_map(|(vt, mut edges, strict, rawvals, nl_free, nl_mode, right, add_bounds, label_kind)| {
            edges.sort();
            if strict {
                edges.dedup();
            }
            let ne = edges.len();
            let vals = rawvals
                .into_iter()
                .map(|(m, k, p)| {
                    let k = if ne == 0 { 0 } else { k as usize % ne };
                    match m {
                        0 => Sym::Null,
                        1 | 2 if ne > 0 => Sym::Edge(k),
                        3 if ne > 0 => Sym::Above(k),
                        4 if ne > 0 => Sym::Below(k),
                        5 => Sym::TypeMin,
                        6 => Sym::TypeMax,
                        7 => Sym::PosInf,
                        8 => Sym::NegInf,
                        _ => Sym::Plain(p),
                    }
                })
                .collect();
            // label count: mostly the matching one, sometimes any of 0..=6
            let matching = if add_bounds { ne + 1 } else { ne.saturating_sub(1) };
            let nlabels = if nl_mode % 4 == 0 { nl_free } else { matching };
            CutCase {
                vt: [VT::I32, VT::I64, VT::F64][vt],
                edges,
                vals,
                nlabels,
                right,
                add_bounds,
                label_kind,
            }
        })
}

fn resolve_f64(s: Sym, edges: &[i32]) -> Option<f64> {
    let e = |k: usize| edges[k] as f64 * 0.5;
    Some(match s {
        Sym::Null => return None,
        Sym::Edge(k) => e(k),
        Sym::Above(k) => {
            let v = e(k);
            if v == 0.0 { f64::MIN_POSITIVE } else if v > 0.0 { f64::from_bits(v.to_bits() + 1) } else { f64::from_bits(v.to_bits() - 1) }
        },
        Sym::Below(k) => {
            let v = e(k);
            if v == 0.0 { -f64::MIN_POSITIVE } else if v > 0.0 { f64::from_bits(v.to_bits() - 1) } else { f64::from_bits(v.to_bits() + 1) }
        },
        Sym::TypeMin => f64::MIN,
        Sym::TypeMax => f64::MAX,
        Sym::PosInf => f64::INFINITY,
        Sym::NegInf => f64::NEG_INFINITY,
        Sym::Plain(p) => p as f64 * 0.5 + 0.25,
    })
}

fn resolve_int(s: Sym, edges: &[i32], min: i64, max: i64) -> i64 {
    match s {
        Sym::Null => 0, // integers cannot be null
        Sym::Edge(k) => edges[k] as i64,
        Sym::Above(k) => edges[k] as i64 + 1,
        Sym::Below(k) => edges[k] as i64 - 1,
        Sym::TypeMin | Sym::NegInf => min,
        Sym::TypeMax | Sym::PosInf => max,
        Sym::Plain(p) => p as i64,
    }
}

/// run vcut for value type T with label type L; returns Err(msg) if vcut itself fails, else per-element Ok(label index)/Err
fn run_cut<T, L>(vals: &[T], bins: &[T], labels: &[L], right: bool, add_bounds: bool, label_idx: impl Fn(&L) -> Option<usize>) -> Result<Vec<Result<Option<usize>, String>>, String>
where
    T: IsNone + Clone,
    T::Inner: Number + std::fmt::Debug,
    L: IsNone + Clone,
{
    let v = vals.to_vec();
    let b = bins.to_vec();
    let l = labels.to_vec();
    let it = v.titer().vcut(&b, &l, right, add_bounds).map_err(|e| e.to_string())?;
    let r: Vec<TResult<L>> = Iterator::collect(it);
    Ok(r.into_iter()
        .map(|x| match x {
            Ok(lab) => Ok(label_idx(&lab)),
            Err(e) => Err(e.to_string()),
        })
        .collect())
}

fn check_cut(c: &CutCase, obs: &mut Obs) -> CheckResult {
    let ne = c.edges.len();
    let matching = if c.add_bounds { c.nlabels == ne + 1 } else { c.nlabels + 1 == ne };
    // logical values as f64 for the model (exact: integers and halves)
    let (logical, got): (Vec<Option<f64>>, Result<Vec<Result<Option<usize>, String>>, String>) = match c.vt {
        VT::F64 => {
            let vals: Vec<Option<f64>> = c.vals.iter().map(|s| resolve_f64(*s, &c.edges)).collect();
            let data: Vec<f64> = vals.iter().map(|v| v.unwrap_or(f64::NAN)).collect();
            let bins: Vec<f64> = c.edges.iter().map(|e| *e as f64 * 0.5).collect();
            let got = match c.label_kind {
                0 => {
                    let labels: Vec<Option<i32>> = (0..c.nlabels).map(|i| Some(i as i32)).collect();
                    run_cut(&data, &bins, &labels, c.right, c.add_bounds, |l| l.map(|x| x as usize))
                },
                _ => {
                    let labels: Vec<f64> = (0..c.nlabels).map(|i| i as f64).collect();
                    run_cut(&data, &bins, &labels, c.right, c.add_bounds, |l| if l.is_nan() { None } else { Some(*l as usize) })
                },
            };
            (vals, got)
        },
        VT::I32 => {
            let data: Vec<i32> = c.vals.iter().map(|s| resolve_int(*s, &c.edges, i32::MIN as i64, i32::MAX as i64) as i32).collect();
            let bins: Vec<i32> = c.edges.clone();
            let got = match c.label_kind {
                0 => {
                    let labels: Vec<Option<i32>> = (0..c.nlabels).map(|i| Some(i as i32)).collect();
                    run_cut(&data, &bins, &labels, c.right, c.add_bounds, |l| l.map(|x| x as usize))
                },
                1 => {
                    let labels: Vec<f64> = (0..c.nlabels).map(|i| i as f64).collect();
                    run_cut(&data, &bins, &labels, c.right, c.add_bounds, |l| if l.is_nan() { None } else { Some(*l as usize) })
                },
                _ => {
                    // plain integer labels: no null label needed because integer values are never null
                    let labels: Vec<i32> = (0..c.nlabels).map(|i| i as i32).collect();
                    run_cut(&data, &bins, &labels, c.right, c.add_bounds, |l| Some(*l as usize))
                },
            };
            (data.iter().map(|v| Some(*v as f64)).collect(), got)
        },
        VT::I64 => {
            // i64 extremes are not exactly representable in f64: compare through i128-free path by
            // clamping the logical value (edges are tiny, so only the order relative to them matters)
            // the whole configuration is shifted by a base beyond 2^53 in three quarters of the cases:
            // neighbouring values / edges are then indistinguishable after a conversion to f64, but their
            // order - and so the enclosing bin - is that of the small offsets
            let sel = (c.nlabels + c.vals.len() + c.edges.len()) % 6;
            // selections 4 / 5 shift the configuration so that the lowest edge IS i64::MIN (highest edge IS
            // i64::MAX): the outer, placeholder-bounded window then has zero width
            let small: Vec<i64> = c.vals.iter().filter(|s| !matches!(s, Sym::TypeMin | Sym::TypeMax | Sym::PosInf | Sym::NegInf | Sym::Null)).map(|s| resolve_int(*s, &c.edges, i64::MIN, i64::MAX)).collect();
            let base: i64 = match (sel, c.edges.first(), c.edges.last()) {
                (4, Some(lo), _) if *lo <= 0 && small.iter().all(|v| *v >= *lo as i64) => i64::MIN - *lo as i64,
                (5, _, Some(hi)) if *hi >= 0 && small.iter().all(|v| *v <= *hi as i64) => i64::MAX - *hi as i64,
                (4, _, _) | (5, _, _) => 0,
                _ => [0, 1 << 53, 1 << 60, -(1 << 61)][sel % 4],
            };
            obs.class_if(base != 0 && sel < 4, "i64_beyond_2^53");
            obs.class_if(base != 0 && sel >= 4, "outer_edge_is_type_extreme");
            let shift = |v: i64| if v == i64::MIN || v == i64::MAX { v } else { v + base };
            let data: Vec<i64> = c.vals.iter().map(|s| shift(resolve_int(*s, &c.edges, i64::MIN, i64::MAX))).collect();
            let bins: Vec<i64> = c.edges.iter().map(|e| *e as i64 + base).collect();
            let labels: Vec<Option<i32>> = (0..c.nlabels).map(|i| Some(i as i32)).collect();
            let got = run_cut(&data, &bins, &labels, c.right, c.add_bounds, |l| l.map(|x| x as usize));
            // logical offsets: when the configuration was shifted onto a type extreme, the extreme value
            // itself is an ordinary offset (it equals that edge)
            let logical = |v: i64| -> f64 {
                if sel >= 4 && base != 0 {
                    (v as i128 - base as i128).clamp(-1_000_000, 1_000_000) as f64
                } else if v == i64::MIN || v == i64::MAX {
                    v.clamp(-1_000_000, 1_000_000) as f64
                } else {
                    (v - base).clamp(-1_000_000, 1_000_000) as f64
                }
            };
            (data.iter().map(|v| Some(logical(*v))).collect(), got)
        },
    };
    let edges_f: Vec<f64> = match c.vt {
        VT::F64 => c.edges.iter().map(|e| *e as f64 * 0.5).collect(),
        _ => c.edges.iter().map(|e| *e as f64).collect(),
    };
    obs.class(match c.vt {
        VT::I32 => "values_i32",
        VT::I64 => "values_i64",
        VT::F64 => "values_f64",
    });
    obs.class_if(!matching, "label_count_mismatch");
    obs.class_if(c.add_bounds, "add_bounds");
    let got = match got {
        Err(e) => {
            return if matching {
                fail("vcut:unexpected-error", format!("vcut rejected a matching label count: {} (edges {:?}, {} labels, add_bounds {})", e, c.edges, c.nlabels, c.add_bounds))
            } else {
                Ok(())
            };
        },
        Ok(g) => g,
    };
    if !matching {
        return fail("vcut:mismatch-accepted", format!("vcut accepted {} labels for {} edges (add_bounds {})", c.nlabels, ne, c.add_bounds));
    }
    if got.len() != logical.len() {
        return fail("vcut:len", format!("{} results for {} values", got.len(), logical.len()));
    }
    let mut on_edge = false;
    let mut extreme = false;
    for (i, v) in logical.iter().enumerate() {
        let sym = c.vals[i];
        on_edge |= matches!(sym, Sym::Edge(_));
        extreme |= matches!(sym, Sym::TypeMin | Sym::TypeMax | Sym::PosInf | Sym::NegInf);
        let expect: Result<Option<usize>, ()> = match v {
            None => Ok(None),
            Some(v) => match cut_index(*v, &edges_f, c.right, c.add_bounds) {
                Some(k) => Ok(Some(k)),
                None => Err(()),
            },
        };
        let class = match sym {
            Sym::TypeMin | Sym::NegInf => "value=type-min",
            Sym::TypeMax | Sym::PosInf => "value=type-max",
            Sym::Edge(_) => "value=edge",
            Sym::Null => "value=null",
            _ => "value=other",
        };
        match (&got[i], expect) {
            (Ok(g), Ok(e)) if *g == e => {},
            (Err(_), Err(())) => {},
            (g, e) => {
                return fail(
                    format!("vcut:{}:{}:{}", if c.add_bounds { "add_bounds" } else { "no_bounds" }, if c.right { "right" } else { "left" }, class),
                    format!("vcut(edges {:?}, right {}, add_bounds {}) value #{} {:?} = {:?}: got {:?}, unique enclosing interval gives {:?}", edges_f, c.right, c.add_bounds, i, sym, v, g, e),
                );
            },
        }
    }
    obs.set_nontrivial(on_edge && extreme);
    Ok(())
}

// ---------------------------------------------------------------------------------------------

#[derive(Clone, Debug, Serialize, Deserialize)]
struct UniqCase {
    runs: Vec<(i8, u8)>, // (value step, run length 1..=5)
    head_nulls: usize,
    tail_nulls: usize,
    descending: bool,
    kind: u8, // 0 f64, 1 Option<i32>, 2 i32 (no nulls)
}

fn uniq_case(_t: Tier) -> impl Strategy<Value = UniqCase> {
    (proptest::collection::vec((1i8..=3, 1u8..=5), 0..=8), 0usize..=3, 0usize..=3, any::<bool>(), 0u8..3).prop_map(|(runs, head_nulls, tail_nulls, descending, kind)| UniqCase {
        runs,
        head_nulls,
        tail_nulls,
        descending,
        kind,
    })
}

fn uniq_series(c: &UniqCase) -> Vec<Option<f64>> {
    let mut out = vec![];
    if c.kind != 2 {
        out.extend(std::iter::repeat(None).take(c.head_nulls));
    }
    let mut v = 0i32;
    for (step, len) in &c.runs {
        v += if c.descending { -(*step as i32) } else { *step as i32 };
        out.extend(std::iter::repeat(Some(v as f64)).take(*len as usize));
    }
    if c.kind != 2 {
        out.extend(std::iter::repeat(None).take(c.tail_nulls));
    }
    out
}

fn check_uniq(c: &UniqCase, obs: &mut Obs) -> CheckResult {
    let x = uniq_series(c);
    let exp_first = unique_idx(&x, false);
    let exp_last = unique_idx(&x, true);
    let exp_vals: Vec<f64> = exp_first.iter().map(|i| x[*i].unwrap()).collect();
    let (first, last, vals): (Vec<usize>, Vec<usize>, Vec<Option<f64>>) = match c.kind {
        0 => {
            let d: Vec<f64> = x.iter().map(|v| v.unwrap_or(f64::NAN)).collect();
            (
                Iterator::collect(d.titer().vsorted_unique_idx(Keep::First)),
                Iterator::collect(d.titer().vsorted_unique_idx(Keep::Last)),
                Iterator::collect(d.titer().vsorted_unique().map(|v| if v.is_nan() { None } else { Some(v) })),
            )
        },
        1 => {
            let d: Vec<Option<i32>> = x.iter().map(|v| v.map(|v| v as i32)).collect();
            (
                Iterator::collect(d.titer().vsorted_unique_idx(Keep::First)),
                Iterator::collect(d.titer().vsorted_unique_idx(Keep::Last)),
                Iterator::collect(d.titer().vsorted_unique().map(|v| v.map(|v| v as f64))),
            )
        },
        _ => {
            let d: Vec<i32> = x.iter().map(|v| v.unwrap() as i32).collect();
            (
                Iterator::collect(d.titer().vsorted_unique_idx(Keep::First)),
                Iterator::collect(d.titer().vsorted_unique_idx(Keep::Last)),
                Iterator::collect(d.titer().vsorted_unique().map(|v| Some(v as f64))),
            )
        },
    };
    let pos = if c.head_nulls > 0 && c.kind != 2 { "leading-nulls" } else { "no-leading-nulls" };
    if first != exp_first {
        return fail(format!("vsorted_unique_idx:first:{}", pos), format!("Keep::First on {:?}: got {:?}, run starts are {:?}", x, first, exp_first));
    }
    if last != exp_last {
        return fail(format!("vsorted_unique_idx:last:{}", pos), format!("Keep::Last on {:?}: got {:?}, run ends are {:?}", x, last, exp_last));
    }
    let vals_f: Vec<f64> = vals.iter().map(|v| v.unwrap_or(f64::NAN)).collect();
    if vals_f != exp_vals {
        return fail(format!("vsorted_unique:{}", pos), format!("vsorted_unique on {:?}: got {:?}, one representative per run is {:?}", x, vals, exp_vals));
    }
    obs.set_nontrivial((c.head_nulls > 0 && c.kind != 2 && !c.runs.is_empty()) || c.runs.iter().any(|r| r.1 >= 2));
    obs.class_if(c.head_nulls > 0 && c.kind != 2, "head_nulls");
    obs.class_if(c.tail_nulls > 0 && c.kind != 2, "tail_nulls");
    obs.class_if(c.descending, "descending");
    Ok(())
}

fn main() {
    let mut p = Property::new(
        "C14",
        "vcut cases = (value type i32/i64/f64; ascending edge vector of size 0..=5 (a quarter with duplicate edges); values drawn symbolically: null, equal to an edge, the next representable value above/below an edge, the type's minimum / maximum, +-inf (f64), plain; label count matching or any of 0..=6; right/left closed; add_bounds on/off; label type Option<i32> / f64 / i32); oracle = unique-enclosing-interval model: Err from vcut for a mismatching label count, per element null label for null, label of the containing interval, Err if none, never a panic. \
         unique cases = sorted ascending/descending inputs built from runs of length 1..=5 with null blocks of length 0..=3 at head and tail, encodings f64 / Option<i32> / i32; oracle = first/last index of each run and one representative per run. \
         Non-trivial: (vcut) a value equal to an edge and a value at a type extreme present; (unique) a leading null block or a run of length >= 2; distinct = distinct serialised cases",
    )
    .assume("edges are non-null and ascending; integer values cannot be null (symbolic nulls become 0 for integer value types)");
    p.add(sub("vcut", 40000, 1500000, cut_case, check_cut));
    p.add(sub("sorted_unique", 20000, 800000, uniq_case, check_uniq));
    main_for(p);
}
