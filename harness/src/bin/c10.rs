//! C10 — kernels never index out of bounds and initialise every output slot exactly once.
use proptest::prelude::*;
use serde::{Deserialize, Serialize};
use tevec::prelude::{MapValidVec, QuantileMethod, UninitVec, Vec1, VecAggValidExt};
#[allow(unused_imports)]
use tevec::prelude::UninitVec as _UV;
use tvh::chk::{reset_log, take_log, ChkOut, ChkView};
use tvh::engine::{canary, catch, fail, main_for, sub, CheckResult, Fail, Obs, Property, Tier};
use tvh::gen::{idx, len_strategy, mp_of, raw_pair, series_of, InT, Series};
use tvh::model::{Stat, Stat2};
use tvh::sut;

#[derive(Clone, Debug, Serialize, Deserialize)]
struct KCase {
    x: Series,
    /// second series (two-series kernels), possibly of a different length
    y: Series,
    w: usize,
    mp: Option<usize>,
    out_buf: bool,
    k: usize,
    flags: u8,
    opt: bool,
}

fn k_case(tier: Tier) -> impl Strategy<Value = KCase> {
    (raw_pair(len_strategy(tier, 20, 48)), any::<u8>(), any::<u16>(), any::<u8>(), any::<u16>(), any::<bool>(), any::<u16>(), any::<u8>(), any::<u8>(), any::<bool>()).prop_map(
        |(rp, wm, ws, mm, ms, out_buf, ks, flags, ymode, opt)| {
            let (x, _) = series_of(&rp.a, InT::F64);
            let (mut y, _) = series_of(&rp.b, InT::F64);
            let len = x.len();
            // window 0..=len+3, with weight on 0, 1, len-1, len, len+1
            let w = match wm % 10 {
                0 => 0,
                1 => 1,
                2 => len.saturating_sub(1),
                3 => len,
                4 => len + 1,
                _ => idx(ws, len + 4),
            };
            // second series: equal (mostly), shorter or longer
            match ymode % 8 {
                0 => {
                    y.truncate(len.saturating_sub(1 + (ymode as usize / 8) % 3));
                },
                1 => {
                    y.extend(std::iter::repeat(Some(1.5)).take(1 + (ymode as usize / 8) % 3));
                },
                _ => {},
            }
            let mp = mp_of(w.max(1), mm, ms);
            KCase {
                k: idx(ks, len + 3),
                x,
                y,
                w,
                mp,
                out_buf,
                flags,
                opt,
            }
        },
    )
}

fn view_f(x: &Series, name: &'static str) -> ChkView<f64> {
    ChkView::new(x.iter().map(|v| v.unwrap_or(f64::NAN)).collect(), 1e300, name)
}
fn view_o(x: &Series, name: &'static str) -> ChkView<Option<f64>> {
    ChkView::new(x.clone(), Some(1e300), name)
}

/// Evaluate the outcome of one kernel call. `regular`: parameters for which a panic is not allowed.
fn judge(name: &str, regular: bool, r: Result<Result<usize, String>, String>, expect_len: usize, obs: &mut Obs) -> CheckResult {
    let log = take_log();
    if let Some(v) = log.violations.first() {
        return fail(
            format!("{}:{}", name, if v.contains("uget") || v.contains("slice") { "oob-read" } else if v.contains("twice") { "double-write" } else if v.contains("without having been written") { "unwritten-slot" } else { "oob-write" }),
            format!("{}: {} ({} unchecked reads, {} writes logged)", name, v, log.ugets + log.uslices, log.usets),
        );
    }
    match r {
        Ok(Ok(n)) => {
            if n != expect_len {
                return fail(format!("{}:len", name), format!("{}: output of length {} for input length {}", name, n, expect_len));
            }
            obs.class("completed");
            Ok(())
        },
        Ok(Err(e)) => fail(format!("{}:out-path", name), format!("{}: {}", name, e)),
        Err(p) => {
            if regular {
                fail(format!("{}:panic-on-regular-parameters", name), format!("{}: panicked with {}", name, p))
            } else {
                // degenerate parameters may be rejected by a clean panic (the log is clean)
                obs.class("clean_panic_on_degenerate_parameters");
                Ok(())
            }
        },
    }
}

/// run a kernel that produces a ChkOut either returned or into a caller-supplied buffer
fn run_kernel<U: Clone + Default + 'static>(len: usize, out_buf: bool, f: impl FnOnce(Option<<ChkOut<U> as Vec1<U>>::UninitRefMut<'_>>) -> Option<ChkOut<U>>) -> Result<Result<usize, String>, String> {
    catch(|| {
        if out_buf {
            let mut buf = <ChkOut<U> as Vec1<U>>::uninit(len);
            let r = f(Some(<ChkOut<U> as Vec1<U>>::uninit_ref_mut(&mut buf)));
            if r.is_some() {
                return Err("a value was returned although a buffer was supplied".to_string());
            }
            // exposing the caller's buffer checks that every slot was written exactly once
            Ok(unsafe { buf.assume_init() }.0.len())
        } else {
            match f(None) {
                Some(o) => Ok(o.0.len()),
                None => Err("nothing returned although no buffer was supplied".to_string()),
            }
        }
    })
}

const STATS1: [Stat; 20] = [
    Stat::Sum,
    Stat::Mean,
    Stat::Ewm,
    Stat::Wma,
    Stat::Std,
    Stat::Var,
    Stat::Skew,
    Stat::Kurt,
    Stat::Min,
    Stat::Max,
    Stat::ArgMin,
    Stat::ArgMax,
    Stat::Rank { pct: false, rev: false },
    Stat::Rank { pct: true, rev: true },
    Stat::MinMaxNorm,
    Stat::ZScore,
    Stat::Reg,
    Stat::Tsf,
    Stat::RegSlope,
    Stat::RegResidMean,
];

fn classify(c: &KCase, two: bool, obs: &mut Obs) {
    let len = c.x.len();
    let mismatch = two && c.y.len() != len;
    obs.set_nontrivial(c.w > len || (c.w == 0 && len > 0) || len == 0 || mismatch || (len > c.w && c.x.iter().any(|v| v.is_none())));
    obs.class_if(c.w == 0 && len > 0, "w=0");
    obs.class_if(c.w > len, "w>len");
    obs.class_if(len == 0, "len=0");
    obs.class_if(mismatch && c.y.len() < len, "second_series_shorter");
    obs.class_if(mismatch && c.y.len() > len, "second_series_longer");
    obs.class_if(c.out_buf, "caller_buffer");
}

fn check_single(c: &KCase, obs: &mut Obs) -> CheckResult {
    classify(c, false, obs);
    let len = c.x.len();
    let regular = c.w >= 1;
    for st in STATS1 {
        let name = format!("ts_v{}", st.name());
        reset_log();
        let r = if c.opt {
            let v = view_o(&c.x, "input");
            run_kernel::<Option<f64>>(len, c.out_buf, |buf| sut::roll_valid::<_, Option<f64>, ChkOut<Option<f64>>, Option<f64>>(&v, st, c.w, c.mp, buf))
        } else {
            let v = view_f(&c.x, "input");
            run_kernel::<f64>(len, c.out_buf, |buf| sut::roll_valid::<_, f64, ChkOut<f64>, f64>(&v, st, c.w, c.mp, buf))
        };
        judge(&name, regular, r, len, obs)?;
    }
    // plain family and fdiff on null-free data
    let nf: Series = c.x.iter().map(|v| Some(v.unwrap_or(0.0))).collect();
    for st in [Stat::Sum, Stat::Mean, Stat::Ewm, Stat::Wma, Stat::Std, Stat::Var, Stat::Skew, Stat::Kurt] {
        let name = format!("ts_{}", st.name());
        reset_log();
        let v = view_f(&nf, "input");
        let r = run_kernel::<f64>(len, c.out_buf, |buf| sut::roll_plain::<_, f64, ChkOut<f64>, f64>(&v, st, c.w, c.mp, buf));
        judge(&name, regular, r, len, obs)?;
    }
    reset_log();
    let v = view_f(&nf, "input");
    let r = run_kernel::<f64>(len, c.out_buf, |buf| sut::roll_fdiff::<_, f64, ChkOut<f64>, f64>(&v, 0.5, c.w, buf));
    judge("ts_fdiff", regular, r, len, obs)?;
    reset_log();
    let v = view_f(&c.x, "input");
    let r = run_kernel::<f64>(len, c.out_buf, |buf| sut::roll_vfdiff::<_, f64, ChkOut<f64>, f64>(&v, 0.5, c.w, c.mp, buf));
    judge("ts_vfdiff", regular, r, len, obs)?;
    Ok(())
}

const STATS2: [Stat2; 7] = [Stat2::Cov, Stat2::Corr, Stat2::RegxAlpha, Stat2::RegxBeta, Stat2::RegxResidMean, Stat2::RegxResidStd, Stat2::RegxResidSkew];

fn check_double(c: &KCase, obs: &mut Obs) -> CheckResult {
    classify(c, true, obs);
    let len = c.x.len();
    let regular = c.w >= 1 && c.y.len() == len;
    for st in STATS2 {
        let name = format!("ts_v{}", st.name());
        reset_log();
        let a = view_f(&c.x, "first series");
        let b = view_f(&c.y, "second series");
        let r = run_kernel::<f64>(len, c.out_buf, |buf| sut::roll2::<_, f64, _, f64, ChkOut<f64>, f64>(&a, &b, st, c.w, c.mp, buf));
        judge(&name, regular, r, len, obs)?;
    }
    reset_log();
    let a = view_f(&c.x, "first series");
    let b = view_f(&c.y, "second series");
    let r = catch(|| Ok(sut::roll2_all::<_, f64, _, f64, ChkOut<(f64, f64, f64)>, f64>(&a, &b, c.w, c.mp).0.len()));
    judge("ts_vregx_all", regular, r, len, obs)?;
    // the iterator (returned) path of the default drivers, which the real Vec / ndarray backends override:
    // first series = option view of a Vec, and a VecDeque; the result goes into the instrumented container,
    // which compares the length the trusted source announces with what it yields (the real containers
    // allocate the former and expose it as initialised)
    {
        use std::collections::VecDeque;
        use tevec::prelude::Vec1View;
        let av: Vec<f64> = tvh::conv::materialize(&c.x);
        let bv: Vec<f64> = tvh::conv::materialize(&c.y);
        let dq: VecDeque<f64> = av.iter().cloned().collect();
        for st in STATS2 {
            for first in 0..2 {
                reset_log();
                let r = catch(|| {
                    let o: Option<ChkOut<f64>> = if first == 0 {
                        sut::roll2::<_, Option<f64>, _, f64, ChkOut<f64>, f64>(&av.opt(), &bv, st, c.w, c.mp, None)
                    } else {
                        sut::roll2::<_, f64, _, f64, ChkOut<f64>, f64>(&dq, &bv, st, c.w, c.mp, None)
                    };
                    Ok::<usize, String>(o.map(|o| o.0.len()).unwrap_or(usize::MAX))
                });
                let name = format!("ts_v{}({} first series, returned)", st.name(), ["option view", "VecDeque"][first]);
                let log = take_log();
                if let Some(v) = log.violations.first() {
                    return fail(format!("ts_v{}:iterator-path:announced-length", st.name()), format!("{}: {} (second series has {} elements, first {})", name, v, bv.len(), len));
                }
                match r {
                    Ok(Ok(n)) if regular && n != len => return fail(format!("ts_v{}:iterator-path:len", st.name()), format!("{}: output of length {} for input length {}", name, n, len)),
                    Err(p) if regular => return fail(format!("ts_v{}:iterator-path:panic-on-regular-parameters", st.name()), format!("{}: panicked with {}", name, p)),
                    _ => {},
                }
            }
        }
        obs.class_if(bv.len() < len, "iterator_path_with_shorter_second_series");
    }
    // the two-series slice driver
    use tevec::prelude::Vec1View;
    reset_log();
    let a = view_f(&c.x, "first series");
    let b = view_f(&c.y, "second series");
    let r = run_kernel::<f64>(len, c.out_buf, |buf| a.rolling2_custom::<ChkOut<f64>, f64, _, _, _>(&b, c.w, |s1: &[f64], s2: &[f64]| (s1.len() + s2.len()) as f64, buf));
    judge("rolling2_custom", regular, r, len, obs)?;
    // the same driver with a caller buffer of the WRONG length (a degenerate parameter): its buffer
    // path goes through the length-checked iterator writer, so the call must end in a clean panic or
    // a fully defined buffer - never in a write past a shorter buffer or in unwritten tail slots of a
    // longer one that is then exposed as initialised. (Only this driver: the index-writing `_to`
    // forms document the buffer length as the caller's obligation, DESIGN 10.2.)
    if c.out_buf && c.y.len() == len {
        let blen = (len as isize + [-2isize, -1, 1, 2, 5][(c.w + len) % 5]).max(0) as usize;
        if blen != len {
            reset_log();
            let a = view_f(&c.x, "first series");
            let b = view_f(&c.y, "second series");
            let r = run_kernel::<f64>(blen, true, |buf| a.rolling2_custom::<ChkOut<f64>, f64, _, _, _>(&b, c.w, |s1: &[f64], s2: &[f64]| (s1.len() + s2.len()) as f64, buf));
            judge("rolling2_custom(wrong-length caller buffer)", false, r, blen, obs)?;
            obs.class("wrong_length_caller_buffer");
        }
    }
    Ok(())
}

fn check_rank_partition(c: &KCase, obs: &mut Obs) -> CheckResult {
    let len = c.x.len();
    obs.set_nontrivial(c.k >= len || len == 0 || c.x.iter().any(|v| v.is_none()));
    obs.class_if(c.k >= len, "k>=len");
    obs.class_if(len == 0, "len=0");
    let (pct, rev, sort) = (c.flags & 1 != 0, c.flags & 2 != 0, c.flags & 4 != 0);
    reset_log();
    let v = view_f(&c.x, "input");
    let r = catch(|| {
        let o: ChkOut<f64> = v.vrank(pct, rev);
        Ok(o.0.len())
    });
    judge("vrank", true, r, len, obs)?;
    reset_log();
    let v = view_o(&c.x, "input");
    let r = catch(|| {
        let o: ChkOut<Option<f64>> = v.vrank(pct, rev);
        Ok(o.0.len())
    });
    judge("vrank(option)", true, r, len, obs)?;
    reset_log();
    let v = view_f(&c.x, "input");
    let r = catch(|| Ok(Iterator::count(v.varg_partition(c.k, sort, rev))));
    judge("varg_partition", true, r, c.k + 1, obs)?;
    reset_log();
    let v = view_f(&c.x, "input");
    let r = catch(|| Ok(Iterator::count(v.vpartition(c.k, sort, rev))));
    judge("vpartition", true, r, c.k + 1, obs)?;
    for (m, q) in [(QuantileMethod::Linear, 0.3), (QuantileMethod::Lower, 0.5), (QuantileMethod::Higher, 0.9), (QuantileMethod::MidPoint, 1.0)] {
        reset_log();
        let v = view_f(&c.x, "input");
        let r = catch(|| {
            let _ = v.vquantile(q, m);
            Ok(0usize)
        });
        judge("vquantile", true, r, 0, obs)?;
    }
    Ok(())
}

/// Caller-supplied output buffers of the REAL containers in the shapes a caller can hand in: a
/// VecDeque whose ring storage is physically wrapped, and a strided / reversed ndarray view inside a
/// padded allocation. Every slot must be written (with the value the Vec reference has) and nothing
/// outside the buffer may be touched. Runs first in a child process (engine `canary`), because a
/// breach here is a stray raw write.
fn check_real_out_buffers(c: &KCase, obs: &mut Obs) -> CheckResult {
    use std::collections::VecDeque;
    use std::mem::MaybeUninit;
    use tevec::export::ndarray::{s, Array1};
    const STATS: [Stat; 10] = [Stat::Sum, Stat::Mean, Stat::Std, Stat::Kurt, Stat::Min, Stat::ArgMax, Stat::Rank { pct: true, rev: false }, Stat::MinMaxNorm, Stat::ZScore, Stat::RegSlope];
    const SENT: f64 = -123456.75;
    let stat = STATS[c.k % STATS.len()];
    let name = format!("ts_v{}", stat.name());
    let w = c.w.max(1);
    let mp = c.mp.map(|m| m.min(w));
    let data: Vec<f64> = c.x.iter().map(|v| v.unwrap_or(f64::NAN)).collect();
    let len = data.len();
    let reference: Vec<f64> = sut::via_vec(len, false, |buf| sut::roll_valid::<Vec<f64>, f64, Vec<f64>, f64>(&data, stat, w, mp, buf)).map_err(|e| Fail { sig: format!("{}:out-path", name), detail: e })?;
    let fb = |v: &f64| if v.is_nan() { u64::MAX } else { v.to_bits() };
    let want: Vec<u64> = reference.iter().map(fb).collect();
    // (a) wrapped VecDeque buffer
    let mut out: VecDeque<MaybeUninit<f64>> = VecDeque::with_capacity(len.max(1));
    let cap = out.capacity();
    let r = if len == 0 { 0 } else { (1 + c.flags as usize % 5) % cap.max(1) };
    for _ in 0..r {
        out.push_back(MaybeUninit::new(SENT));
    }
    for _ in 0..r {
        out.pop_front();
    }
    for _ in 0..len {
        out.push_back(MaybeUninit::new(SENT));
    }
    let wrapped = !out.as_slices().1.is_empty();
    let ret = sut::roll_valid::<Vec<f64>, f64, VecDeque<f64>, f64>(&data, stat, w, mp, Some(&mut out));
    if ret.is_some() {
        return fail(format!("{}:out-path", name), "a value was returned although a buffer was supplied");
    }
    let got: Vec<f64> = out.iter().map(|v| unsafe { v.assume_init() }).collect();
    if got.iter().map(fb).collect::<Vec<_>>() != want {
        let unwritten = got.iter().zip(reference.iter()).filter(|(g, r)| **g == SENT && **r != SENT).count();
        return fail(format!("{}:vecdeque-out-buffer", name), format!("{} (w {}, mp {:?}) into a {} VecDeque out buffer: {:?} ({} slots still hold the sentinel), the Vec reference is {:?}", name, w, mp, if wrapped { "wrapped" } else { "contiguous" }, got, unwritten, reference));
    }
    // (b) strided / reversed ndarray view inside a padded allocation
    let step = [1isize, 2, 3, -1, -2][(c.flags as usize / 8) % 5];
    let st = step.unsigned_abs();
    let plen = if len == 0 { 0 } else { (len - 1) * st + 1 };
    let pad = len + 2;
    let mut parent: Array1<MaybeUninit<f64>> = Array1::from_elem(plen + 2 * pad, MaybeUninit::new(SENT));
    {
        let view = parent.slice_mut(s![pad..pad + plen;step]);
        let ret = sut::roll_valid::<Vec<f64>, f64, Array1<f64>, f64>(&data, stat, w, mp, Some(view));
        if ret.is_some() {
            return fail(format!("{}:out-path", name), "a value was returned although a buffer was supplied");
        }
    }
    let got: Vec<f64> = parent.slice(s![pad..pad + plen;step]).iter().map(|v| unsafe { v.assume_init() }).collect();
    if got.iter().map(fb).collect::<Vec<_>>() != want {
        return fail(format!("{}:ndarray-out-view", name), format!("{} (w {}, mp {:?}) into an ndarray out view with step {}: {:?}, the Vec reference is {:?}", name, w, mp, step, got, reference));
    }
    let touched = parent.iter().filter(|v| unsafe { v.assume_init() } != SENT).count();
    if touched != reference.iter().filter(|v| **v != SENT).count() {
        return fail(format!("{}:ndarray-out-view:outside-write", name), format!("{} wrote outside its out view (step {})", name, step));
    }
    // (c) an output element type with drop glue: the caller's (initialised, sentinel-filled) Vec buffer is
    // overwritten without its old contents being read or dropped; every slot gets the value of the call
    {
        use std::rc::Rc;
        use tevec::prelude::Vec1View;
        let sentinel = Rc::new(-1.0f64);
        let mut buf: Vec<MaybeUninit<Rc<f64>>> = (0..len).map(|_| MaybeUninit::new(sentinel.clone())).collect();
        let mut acc = 0.0f64;
        let ret: Option<Vec<Rc<f64>>> = data.rolling_apply::<Vec<Rc<f64>>, Rc<f64>, _>(
            w,
            |rm, x| {
                if let Some(r) = rm {
                    if !r.is_nan() {
                        acc -= r;
                    }
                }
                if !x.is_nan() {
                    acc += x;
                }
                Rc::new(acc)
            },
            Some(&mut buf[..]),
        );
        if ret.is_some() {
            return fail("rolling_apply<Rc>:out-path", "a value was returned although a buffer was supplied");
        }
        let count_after = Rc::strong_count(&sentinel);
        let vals: Vec<Rc<f64>> = buf.into_iter().map(|v| unsafe { v.assume_init() }).collect();
        if vals.iter().any(|v| Rc::ptr_eq(v, &sentinel)) {
            return fail("rolling_apply<Rc>:unwritten-slot", format!("a slot of the caller's buffer still holds the sentinel (len {}, w {})", len, w));
        }
        if count_after != len + 1 {
            return fail("rolling_apply<Rc>:old-contents-dropped", format!("writing {} results into a caller-supplied buffer of Rc elements changed the reference count of its old contents from {} to {}: the uninitialised slots were read / dropped", len, len + 1, count_after));
        }
        // the old contents were never dropped by the library (MaybeUninit semantics): release them here
        for _ in 0..len {
            unsafe { Rc::decrement_strong_count(Rc::as_ptr(&sentinel)) };
        }
    }
    obs.set_nontrivial(len >= 3 && (wrapped || step != 1));
    obs.class_if(wrapped, "out_deque_wrapped");
    obs.class_if(step != 1, "out_view_strided");
    Ok(())
}

fn main() {
    let mut p = Property::new(
        "C10",
        "cases = (pair of series of length 0..=20 (thorough ..=48) with every null pattern, window 0..=len+3 weighted towards 0, 1, len-1, len, len+1, min_periods, second series equal / shorter / longer, k in 0..=len+2, f64 or Option<f64> elements, returned or caller-supplied output buffer); every rolling entry point (28 single-series, 8 two-series, rolling2_custom), vrank, varg_partition, vpartition, vquantile runs on an instrumented input view that logs each unchecked element / slice access and into an instrumented output buffer that logs each write. Oracle: the call completes with a clean access log, an output as long as the input, and every slot written exactly once; or - for degenerate parameters only (window 0, mismatched second series) - it panics before any bad access. rolling2_custom is run a second time with a caller buffer of the wrong length (len-2..len+5): clean panic or a fully written buffer, never a write past a shorter buffer or unwritten tail slots of a longer one. \
         Non-trivial = w > len, w = 0 with len > 0, len = 0, mismatched lengths, or (len > w and nulls present: rescans and removals of nulls happen); distinct = distinct serialised cases",
    )
    .assume("the instrumented view delegates its rolling drivers to the library's own *_to bodies exactly as the Vec backend does")
    .assume("sub real_containers (and the libFuzzer target fz_kernel under ASan in the thorough tier) runs the kernels on the real Vec / wrapped VecDeque / strided ndarray view with the C01/C03 model and cross-backend bit-equality as oracle")
    .raw(|bytes| ("real_containers".to_string(), serde_json::to_value(tvh::fuzzable::decode_kernel(bytes)).unwrap()));
    p.add(sub("single_series_kernels", 6000, 200000, k_case, check_single));
    p.add(sub("two_series_kernels", 6000, 200000, k_case, check_double));
    p.add(sub("rank_partition_quantile", 10000, 300000, k_case, check_rank_partition));
    p.add(canary(sub("real_out_buffers", 3000, 100000, k_case, check_real_out_buffers)));
    p.add(sub(
        "real_containers",
        10000,
        300000,
        |tier| {
            (k_case(tier), 0usize..20, 0usize..10, 0usize..5).prop_map(|(k, st, rot, step)| tvh::fuzzable::KernelCase {
                c: tvh::gen::RollCase {
                    x: k.x,
                    w: k.w.max(1),
                    mp: k.mp.map(|m| m.min(k.w.max(1))),
                    tin: InT::F64,
                    tout: tvh::gen::OutT::F64,
                    class: "kernel".into(),
                    out_buf: k.out_buf,
                    p: 0.0,
                },
                st,
                rot,
                step: [1i8, 2, 3, -1, -2][step],
            })
        },
        tvh::fuzzable::check_kernel,
    ));
    main_for(p);
}
