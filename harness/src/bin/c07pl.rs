//! C07 (Polars cells) — the same logical sequence held in a Polars chunked array under any
//! chunking must give the results of the Vec<Option<f64>> reference. Built with `--features pl`.
use proptest::prelude::*;
use serde::{Deserialize, Serialize};
use tevec::export::polars::prelude::{Float64Chunked, Int32Chunked};
use tevec::prelude::{AggValidBasic, GetLen, MapValidBasic, TIter, Vec1View, VecAggValidExt, QuantileMethod};
use tvh::conv::OutElem;
use tvh::engine::{catch, fail, main_for, sub, CheckResult, Fail, Obs, Property, Tier};
use tvh::fuzzable::{hint_law_bi, hint_law_fwd};
use tvh::gen::*;
use tvh::model::{Stat, Stat2};
use tvh::sut;

#[derive(Clone, Debug, Serialize, Deserialize)]
struct PlCase {
    c: RollCase,
    /// chunk boundaries (positions at which a new chunk starts), 0..=2 of them
    cuts: Vec<usize>,
    y: Series,
}

fn pl_case(tier: Tier) -> impl Strategy<Value = PlCase> {
    let ins: &'static [InT] = &[InT::OptF64];
    let outs: &'static [OutT] = &[OutT::F64, OutT::OptF64];
    (roll_case_of(tier, ins, outs, 30, 100, 1, ALL_CLASSES), proptest::collection::vec(any::<u16>(), 0..=2), 0usize..23, any::<u64>()).prop_map(|(mut c, cuts, k, ys)| {
        let len = c.x.len();
        let mut cuts: Vec<usize> = cuts.into_iter().map(|s| idx(s, len + 1)).collect();
        cuts.sort();
        c.p = k as f64;
        // a second series derived deterministically
        let mut s = ys | 1;
        let y: Series = (0..len)
            .map(|_| {
                s ^= s << 13;
                s ^= s >> 7;
                s ^= s << 17;
                if s % 7 == 0 { None } else { Some(((s >> 11) % 41) as f64 - 20.0) }
            })
            .collect();
        PlCase { c, cuts, y }
    })
}

fn chunked(x: &Series, cuts: &[usize]) -> Float64Chunked {
    let mut bounds = vec![0usize];
    bounds.extend(cuts.iter().cloned());
    bounds.push(x.len());
    let mut out: Option<Float64Chunked> = None;
    for w in bounds.windows(2) {
        let part: Float64Chunked = x[w[0]..w[1]].iter().cloned().collect();
        match out.as_mut() {
            None => out = Some(part),
            Some(o) => {
                if w[1] > w[0] {
                    o.append(&part).unwrap();
                }
            },
        }
    }
    out.unwrap()
}

fn bits(s: &Series) -> Vec<u64> {
    s.iter().map(|v| v.map(|x| x.to_bits()).unwrap_or(u64::MAX)).collect()
}

const STATS: [Stat; 23] = [
    Stat::Sum,
    Stat::Mean,
    Stat::Ewm,
    Stat::Wma,
    Stat::Std,
    Stat::Var,
    Stat::Skew,
    Stat::Kurt,
    Stat::Fdiff(0.5),
    Stat::Min,
    Stat::Max,
    Stat::ArgMin,
    Stat::ArgMax,
    Stat::Rank { pct: false, rev: false },
    Stat::Rank { pct: true, rev: true },
    Stat::MinMaxNorm,
    Stat::ZScore,
    Stat::Reg,
    Stat::Tsf,
    Stat::RegSlope,
    Stat::RegIntercept,
    Stat::RegResidMean,
    Stat::Rank { pct: true, rev: false },
];

fn classify(p: &PlCase, ca: &Float64Chunked, obs: &mut Obs) {
    let nchunks = ca.chunks().len();
    obs.set_nontrivial(p.c.x.len() >= 3 && nchunks >= 2);
    obs.class(match nchunks {
        0 | 1 => "1_chunk",
        2 => "2_chunks",
        _ => "3_chunks",
    });
    obs.class_if(p.c.x.iter().any(|v| v.is_none()), "validity_bitmap");
}

/// In a third of the cases some valid slots hold a NaN payload (`Some(NaN)`: a NaN stored under a set
/// validity bit). What such an element means is not asked (DESIGN 5.4); that the Polars array and the
/// Vec<Option<f64>> holding the same elements behave identically is (pure differential).
fn payload(p: &PlCase, obs: &mut Obs) -> Series {
    if (p.cuts.len() + p.c.w) % 3 != 0 {
        return p.c.x.clone();
    }
    obs.class("nan_payload_in_valid_slots");
    p.c.x.iter().enumerate().map(|(i, v)| if v.is_some() && (i * 5 + p.c.w) % 4 == 0 { Some(f64::NAN) } else { *v }).collect()
}

fn check_rolling(p: &PlCase, obs: &mut Obs) -> CheckResult {
    let stat = STATS[(p.c.p as usize) % STATS.len()];
    let name = format!("ts_v{}", stat.name());
    let xs = payload(p, obs);
    let x = &xs;
    let ca = chunked(x, &p.cuts);
    classify(p, &ca, obs);
    let v: Vec<Option<f64>> = x.clone();
    let (w, mp) = (p.c.w, p.c.mp);
    let has_payload = x.iter().any(|v| matches!(v, Some(f) if f.is_nan()));
    macro_rules! both {
        ($U:ty) => {{
            let reference = catch(|| -> Vec<$U> {
                match stat {
                    Stat::Fdiff(d) => sut::roll_vfdiff::<_, Option<f64>, Vec<$U>, $U>(&v, d, w, mp, None).unwrap(),
                    _ => sut::roll_valid::<_, Option<f64>, Vec<$U>, $U>(&v, stat, w, mp, None).unwrap(),
                }
            });
            let reference: Vec<$U> = match reference {
                Ok(r) => r,
                // what a NaN payload means to a statistic is not asked (5.4): if the Vec reference itself
                // gives up on it there is nothing to compare the Polars array with
                Err(_) if has_payload => {
                    obs.class("reference_panics_on_nan_payload");
                    return Ok(());
                },
                Err(e) => return fail(format!("{}:reference-panic", name), e),
            };
            let got: Vec<$U> = match stat {
                Stat::Fdiff(d) => sut::roll_vfdiff::<_, Option<f64>, Vec<$U>, $U>(&ca, d, w, mp, None).unwrap(),
                _ => sut::roll_valid::<_, Option<f64>, Vec<$U>, $U>(&ca, stat, w, mp, None).unwrap(),
            };
            let r: Series = reference.iter().map(|u| u.to_logical()).collect();
            let g: Series = got.iter().map(|u| u.to_logical()).collect();
            if bits(&r) != bits(&g) {
                return fail(format!("{}:polars-input", name), format!("{} (w {}, mp {:?}) on a Polars array with chunks at {:?} = {:?}, Vec reference {:?}", name, w, mp, p.cuts, g, r));
            }
            r
        }};
    }
    let r = if p.c.tout == OutT::F64 { both!(f64) } else { both!(Option<f64>) };
    // Polars as the output container (iterator drivers only, DESIGN 5.7)
    if !matches!(stat, Stat::Fdiff(_)) {
        let out: Float64Chunked = sut::roll_valid::<_, Option<f64>, Float64Chunked, Option<f64>>(&ca, stat, w, mp, None).unwrap();
        let g: Series = out.into_iter().collect();
        // (with a NaN payload a result may be Some(NaN): the reference must use the same output type)
        let r: Series = if has_payload { sut::roll_valid::<_, Option<f64>, Vec<Option<f64>>, Option<f64>>(&v, stat, w, mp, None).unwrap() } else { r };
        if bits(&g) != bits(&r) || GetLen::len(&out) != x.len() {
            return fail(format!("{}:polars-output", name), format!("{} collected into a Polars array = {:?}, Vec reference {:?}", name, g, r));
        }
    }
    Ok(())
}

fn check_two(p: &PlCase, obs: &mut Obs) -> CheckResult {
    const S2: [Stat2; 7] = [Stat2::Cov, Stat2::Corr, Stat2::RegxAlpha, Stat2::RegxBeta, Stat2::RegxResidMean, Stat2::RegxResidStd, Stat2::RegxResidSkew];
    let stat = S2[(p.c.p as usize) % 7];
    let ca = chunked(&p.c.x, &p.cuts);
    let cb = chunked(&p.y, &p.cuts.iter().map(|c| c / 2).collect::<Vec<_>>());
    classify(p, &ca, obs);
    let (a, b): (Vec<Option<f64>>, Vec<Option<f64>>) = (p.c.x.clone(), p.y.clone());
    let r: Vec<f64> = sut::roll2::<_, Option<f64>, _, Option<f64>, Vec<f64>, f64>(&a, &b, stat, p.c.w, p.c.mp, None).unwrap();
    let g: Vec<f64> = sut::roll2::<_, Option<f64>, _, Option<f64>, Vec<f64>, f64>(&ca, &cb, stat, p.c.w, p.c.mp, None).unwrap();
    let g2: Vec<f64> = sut::roll2::<_, Option<f64>, _, Option<f64>, Vec<f64>, f64>(&a, &cb, stat, p.c.w, p.c.mp, None).unwrap();
    let n = |v: &Vec<f64>| -> Vec<u64> { v.iter().map(|x| if x.is_nan() { u64::MAX } else { x.to_bits() }).collect() };
    if n(&g) != n(&r) || n(&g2) != n(&r) {
        return fail(format!("ts_v{}:polars-input", stat.name()), format!("two-series result on Polars arrays {:?} / mixed {:?} differs from Vec reference {:?}", g, g2, r));
    }
    Ok(())
}

fn check_access_map_agg(p: &PlCase, obs: &mut Obs) -> CheckResult {
    let xs = payload(p, obs);
    let x = &xs;
    let ca = chunked(x, &p.cuts);
    classify(p, &ca, obs);
    let n = x.len();
    let want = bits(x);
    let dec = |v: Option<f64>| v.map(|y| y.to_bits()).unwrap_or(u64::MAX);
    if GetLen::len(&ca) != n {
        return fail("accessor:len:polars", format!("len {} for {} elements", GetLen::len(&ca), n));
    }
    for i in 0..n + 2 {
        match Vec1View::get(&ca, i) {
            Ok(v) if i < n && dec(v) == want[i] => {},
            Err(_) if i >= n => {},
            other => return fail("accessor:get:polars", format!("get({}) = {:?} (chunks at {:?})", i, other.map(dec), p.cuts)),
        }
    }
    for i in 0..n {
        if dec(unsafe { Vec1View::uget(&ca, i) }) != want[i] {
            return fail("accessor:uget:polars", format!("uget({})", i));
        }
    }
    let fwd: Vec<u64> = ca.titer().map(dec).collect();
    let mut rev: Vec<u64> = ca.titer().rev().map(dec).collect();
    rev.reverse();
    if fwd != want || rev != want {
        return fail("accessor:titer:polars", format!("titer forward {:?} / reversed {:?}, expected {:?}", fwd, rev, want));
    }
    for a in 0..=n {
        for b in a..=n {
            let s = Vec1View::slice(&ca, a, b).map_err(|e| Fail { sig: "accessor:slice:polars".into(), detail: e.to_string() })?;
            let got: Vec<u64> = s.into_iter().map(dec).collect();
            if got != want[a..b] {
                return fail("accessor:slice:polars", format!("slice({}, {}) = {:?}", a, b, got));
            }
        }
    }
    // trusted-length law of the Polars iterator (C09) before it is handed to Polars' trusted collector
    let script = [true, false, true];
    let h = hint_law_bi("polars.titer", || ca.titer(), &script)?;
    let h2 = hint_law_fwd("polars.titer.vshift", || ca.titer().vshift(p.c.w as i32 - 3, None), 2)?;
    if h != n || h2 != n {
        return fail("polars.titer:len", "announced length");
    }
    // mapping functions fed from titer(), collected into Vec and into a Polars array
    let v: Vec<Option<f64>> = x.clone();
    let sh = p.c.w as i32 - 3;
    macro_rules! same_iter {
        ($name:expr, $a:expr, $b:expr) => {{
            let a: Vec<Option<f64>> = Iterator::collect($a);
            let b: Vec<Option<f64>> = Iterator::collect($b);
            if bits(&a) != bits(&b) {
                return fail(format!("{}:polars-input", $name), format!("{} differs: {:?} vs {:?}", $name, b, a));
            }
        }};
    }
    same_iter!("vshift", v.titer().vshift(sh, None), ca.titer().vshift(sh, None));
    same_iter!("ffill", v.titer().ffill(None), ca.titer().ffill(None));
    same_iter!("bfill", v.titer().bfill(Some(Some(0.5))), ca.titer().bfill(Some(Some(0.5))));
    same_iter!("vclip", v.titer().vclip(Some(-1.0), Some(2.0)), ca.titer().vclip(Some(-1.0), Some(2.0)));
    same_iter!("vabs", v.titer().vabs(), ca.titer().vabs());
    use tevec::prelude::Vec1Collect;
    let col: Float64Chunked = ca.titer().vshift(sh, None).collect_trusted_vec1();
    let colv: Series = col.into_iter().collect();
    let refv: Series = Iterator::collect(v.titer().vshift(sh, None));
    if bits(&colv) != bits(&refv) {
        return fail("collect_trusted_vec1:polars-output", format!("{:?} vs {:?}", colv, refv));
    }
    // aggregations
    let fb = |f: f64| if f.is_nan() { u64::MAX } else { f.to_bits() };
    let mpv = p.c.mp.unwrap_or(1);
    let pairs: Vec<(&str, u64, u64)> = vec![
        ("count_valid", v.titer().count_valid() as u64, ca.titer().count_valid() as u64),
        ("count_none", v.titer().count_none() as u64, ca.titer().count_none() as u64),
        ("vsum", dec(v.titer().vsum()), dec(ca.titer().vsum())),
        ("vmean", fb(v.titer().vmean()), fb(ca.titer().vmean())),
        ("vvar", fb(v.titer().vvar(mpv)), fb(ca.titer().vvar(mpv))),
        ("vskew", fb(v.titer().vskew(mpv)), fb(ca.titer().vskew(mpv))),
        ("vmax", dec(v.titer().vmax()), dec(ca.titer().vmax())),
        ("vmin", dec(v.titer().vmin()), dec(ca.titer().vmin())),
        ("vargmax", v.titer().vargmax().map(|i| i as u64).unwrap_or(u64::MAX), ca.titer().vargmax().map(|i| i as u64).unwrap_or(u64::MAX)),
        ("vfirst", dec(v.titer().vfirst().flatten()), dec(ca.titer().vfirst().flatten())),
        ("vlast", dec(v.titer().vlast().flatten()), dec(ca.titer().vlast().flatten())),
        ("vquantile", fb(v.vquantile(0.3, QuantileMethod::Linear).unwrap_or(f64::NAN)), fb(ca.vquantile(0.3, QuantileMethod::Linear).unwrap_or(f64::NAN))),
        ("vquantile(hi)", fb(v.vquantile(0.8, QuantileMethod::Lower).unwrap_or(f64::NAN)), fb(ca.vquantile(0.8, QuantileMethod::Lower).unwrap_or(f64::NAN))),
        ("vmedian", fb(v.vmedian()), fb(ca.vmedian())),
    ];
    for (name, a, b) in pairs {
        if a != b {
            return fail(format!("{}:polars-input", name), format!("{} differs between Vec and Polars input (chunks at {:?}, series {:?})", name, p.cuts, x));
        }
    }
    // an integer chunked array
    let xi: Vec<Option<i32>> = x.iter().map(|v| v.map(|f| f as i32)).collect();
    let ci: Int32Chunked = xi.iter().cloned().collect();
    let ri: Vec<f64> = sut::roll_valid::<_, Option<i32>, Vec<f64>, f64>(&xi, Stat::Sum, p.c.w, p.c.mp, None).unwrap();
    let gi: Vec<f64> = sut::roll_valid::<_, Option<i32>, Vec<f64>, f64>(&ci, Stat::Sum, p.c.w, p.c.mp, None).unwrap();
    if ri.iter().map(|f| fb(*f)).collect::<Vec<_>>() != gi.iter().map(|f| fb(*f)).collect::<Vec<_>>() {
        return fail("ts_vsum:polars-i32", "Int32Chunked input differs from Vec<Option<i32>>");
    }
    Ok(())
}

/// String columns: `&ChunkedArray<StringType>` is a view of `Option<&str>`; accessors, slices and the
/// window-slice driver must agree with the Vec<Option<String>> holding the same logical sequence.
fn check_strings(p: &PlCase, obs: &mut Obs) -> CheckResult {
    use tevec::export::polars::prelude::StringChunked;
    let strs: Vec<Option<String>> = p.c.x.iter().enumerate().map(|(i, v)| v.map(|f| format!("{}{}", "abcdefg".chars().nth(i % 7).unwrap(), (f as i64).rem_euclid(1000)))).collect();
    let n = strs.len();
    // chunked construction
    let mut bounds = vec![0usize];
    bounds.extend(p.cuts.iter().cloned());
    bounds.push(n);
    let mut ca: Option<StringChunked> = None;
    for w in bounds.windows(2) {
        let part: StringChunked = strs[w[0]..w[1]].iter().map(|s| s.as_deref()).collect();
        match ca.as_mut() {
            None => ca = Some(part),
            Some(o) => {
                if w[1] > w[0] {
                    o.append(&part).unwrap();
                }
            },
        }
    }
    let ca = ca.unwrap();
    let view = &ca;
    let want: Vec<Option<&str>> = strs.iter().map(|s| s.as_deref()).collect();
    if GetLen::len(&view) != n {
        return fail("string:len:polars", format!("len {} for {} strings", GetLen::len(&view), n));
    }
    for i in 0..n + 2 {
        match Vec1View::get(&view, i) {
            Ok(v) if i < n && v == want[i] => {},
            Err(_) if i >= n => {},
            other => return fail("string:get:polars", format!("get({}) = {:?}, expected {:?} (chunks at {:?})", i, other.ok(), want.get(i), p.cuts)),
        }
    }
    let fwd: Vec<Option<&str>> = view.titer().collect();
    if fwd != want {
        return fail("string:titer:polars", format!("titer {:?}, expected {:?}", fwd, want));
    }
    let h = hint_law_fwd("polars.string.titer", || view.titer(), 3)?;
    if h != n {
        return fail("string:titer:len", "announced length");
    }
    for a in 0..=n.min(12) {
        for b in a..=n.min(12) {
            let sl = Vec1View::slice(&view, a, b).map_err(|e| Fail { sig: "string:slice:polars".into(), detail: e.to_string() })?;
            let got: Vec<Option<&str>> = sl.into_iter().collect();
            if got != want[a..b] {
                return fail("string:slice:polars", format!("slice({}, {}) has {:?}, expected {:?}", a, b, got, &want[a..b]));
            }
        }
    }
    // window-slice driver: total characters and number of nulls per window
    let w = p.c.w.max(1);
    let reference: Vec<i64> = (0..n)
        .map(|i| {
            let lo = (i + 1).saturating_sub(w);
            want[lo..=i].iter().map(|s| s.map(|s| s.len() as i64).unwrap_or(1000)).sum()
        })
        .collect();
    let got: Vec<i64> = view
        .rolling_custom::<Vec<i64>, i64, _>(w, |s: StringChunked| s.into_iter().map(|s| s.map(|s| s.len() as i64).unwrap_or(1000)).sum(), None)
        .ok_or_else(|| Fail { sig: "string:rolling_custom:out-path".into(), detail: "nothing returned".into() })?;
    if got != reference {
        return fail("string:rolling_custom:polars", format!("rolling_custom(w={}) over string windows = {:?}, the Vec reference gives {:?} (chunks at {:?})", w, got, reference, p.cuts));
    }
    obs.set_nontrivial(n > w && !p.cuts.is_empty() && strs.iter().any(|s| s.is_none()));
    obs.class_if(ca.chunks().len() > 1, "multi_chunk");
    Ok(())
}

/// Datetime columns: a Polars Datetime column of unit ns / us / ms iterated as `DateTime<unit>` must
/// give the raw values of the column (null -> NaT) under any chunking.
fn check_datetimes(p: &PlCase, obs: &mut Obs) -> CheckResult {
    use tevec::export::polars::prelude::{Int64Chunked, TimeUnit};
    use tevec::prelude::{unit, DateTime};
    let raw: Vec<Option<i64>> = p.c.x.iter().enumerate().map(|(i, v)| v.map(|f| (f as i64).wrapping_mul(1_000_003) + i as i64 * 86_400_000)).collect();
    let n = raw.len();
    let mut bounds = vec![0usize];
    bounds.extend(p.cuts.iter().cloned());
    bounds.push(n);
    let mut ca: Option<Int64Chunked> = None;
    for w in bounds.windows(2) {
        let part: Int64Chunked = raw[w[0]..w[1]].iter().cloned().collect();
        match ca.as_mut() {
            None => ca = Some(part),
            Some(o) => {
                if w[1] > w[0] {
                    o.append(&part).unwrap();
                }
            },
        }
    }
    let ca = ca.unwrap();
    macro_rules! unit_check {
        ($tu:expr, $U:ty, $name:expr) => {{
            let dt = ca.clone().into_datetime($tu, None);
            if GetLen::len(&dt) != n {
                return fail(format!("datetime:{}:len:polars", $name), format!("len {} for {} instants", GetLen::len(&dt), n));
            }
            let got: Vec<DateTime<$U>> = TIter::<DateTime<$U>>::titer(&&dt).collect();
            let want: Vec<DateTime<$U>> = raw.iter().map(|v| v.map(DateTime::<$U>::new).unwrap_or(DateTime::<$U>::nat())).collect();
            if got.len() != n || got.iter().zip(want.iter()).any(|(g, w)| g.0 != w.0) {
                return fail(format!("datetime:{}:titer:polars", $name), format!("titer of a Datetime({}) column = {:?}, raw values are {:?}", $name, got.iter().map(|d| d.0).collect::<Vec<_>>(), raw));
            }
        }};
    }
    unit_check!(TimeUnit::Nanoseconds, unit::Nanosecond, "ns");
    unit_check!(TimeUnit::Microseconds, unit::Microsecond, "us");
    unit_check!(TimeUnit::Milliseconds, unit::Millisecond, "ms");
    obs.set_nontrivial(n >= 2 && raw.iter().any(|v| v.is_none()));
    Ok(())
}

/// C02 on a Polars input: the rolling drivers with a recording, stateful callback (returned path;
/// the *_to forms need `uset`, which the Polars backend documents as unsupported)
fn check_drivers(p: &PlCase, obs: &mut Obs) -> CheckResult {
    use std::cell::RefCell;
    let x = &p.c.x;
    let ca = chunked(x, &p.cuts);
    let cb = chunked(&p.y, &[]);
    classify(p, &ca, obs);
    let len = x.len();
    let w = p.c.w;
    let key = |v: Option<f64>| v.map(|f| f.to_bits()).unwrap_or(u64::MAX);
    let xb: Vec<u64> = x.iter().map(|v| key(*v)).collect();
    let yb: Vec<u64> = p.y.iter().map(|v| key(*v)).collect();
    let rm_idx = |i: usize| if i + 1 >= w { Some(i + 1 - w) } else { None };
    let unspecified = |i: usize| w > len && i + 1 == len;
    // rolling_apply
    let log: RefCell<Vec<(Option<u64>, u64)>> = RefCell::new(vec![]);
    let out: Vec<i32> = ca
        .rolling_apply::<Vec<i32>, i32, _>(
            w,
            |rm, v| {
                log.borrow_mut().push((rm.map(key), key(v)));
                log.borrow().len() as i32 - 1
            },
            None,
        )
        .unwrap();
    let l = log.into_inner();
    if l.len() != len || out.len() != len {
        return fail("polars:rolling_apply:call-count", format!("{} calls / {} outputs for {} positions", l.len(), out.len(), len));
    }
    for i in 0..len {
        if l[i].1 != xb[i] || (!unspecified(i) && l[i].0 != rm_idx(i).map(|j| xb[j])) || out[i] != i as i32 {
            return fail("polars:rolling_apply:arguments", format!("call {} on a Polars input (chunks at {:?}, w {}): got {:?}", i, p.cuts, w, l[i]));
        }
    }
    // rolling_apply_idx
    let log: RefCell<Vec<(Option<usize>, usize, u64)>> = RefCell::new(vec![]);
    let out: Vec<i32> = ca
        .rolling_apply_idx::<Vec<i32>, i32, _>(
            w,
            |s, e, v| {
                log.borrow_mut().push((s, e, key(v)));
                log.borrow().len() as i32 - 1
            },
            None,
        )
        .unwrap();
    let l = log.into_inner();
    if l.len() != len || out.len() != len {
        return fail("polars:rolling_apply_idx:call-count", format!("{} calls for {} positions", l.len(), len));
    }
    for i in 0..len {
        if l[i].2 != xb[i] || l[i].1 != i || (!unspecified(i) && l[i].0 != rm_idx(i)) || out[i] != i as i32 {
            return fail("polars:rolling_apply_idx:arguments", format!("call {} (w {}): got {:?}", i, w, l[i]));
        }
    }
    // rolling2_apply / rolling2_apply_idx
    let log: RefCell<Vec<(Option<(u64, u64)>, (u64, u64))>> = RefCell::new(vec![]);
    let out: Vec<i32> = ca
        .rolling2_apply::<Vec<i32>, i32, _, _, _>(
            &cb,
            w,
            |rm, v| {
                log.borrow_mut().push((rm.map(|r| (key(r.0), key(r.1))), (key(v.0), key(v.1))));
                log.borrow().len() as i32 - 1
            },
            None,
        )
        .unwrap();
    let l = log.into_inner();
    if l.len() != len || out.len() != len {
        return fail("polars:rolling2_apply:call-count", format!("{} calls for {} positions", l.len(), len));
    }
    for i in 0..len {
        if l[i].1 != (xb[i], yb[i]) || (!unspecified(i) && l[i].0 != rm_idx(i).map(|j| (xb[j], yb[j]))) || out[i] != i as i32 {
            return fail("polars:rolling2_apply:arguments", format!("call {} (w {}): got {:?}", i, w, l[i]));
        }
    }
    let log: RefCell<Vec<(Option<usize>, usize, (u64, u64))>> = RefCell::new(vec![]);
    let _out: Vec<i32> = ca
        .rolling2_apply_idx::<Vec<i32>, i32, _, _, _>(
            &cb,
            w,
            |s, e, v| {
                log.borrow_mut().push((s, e, (key(v.0), key(v.1))));
                log.borrow().len() as i32 - 1
            },
            None,
        )
        .unwrap();
    let l = log.into_inner();
    for i in 0..len {
        if l.len() != len || l[i].2 != (xb[i], yb[i]) || l[i].1 != i || (!unspecified(i) && l[i].0 != rm_idx(i)) {
            return fail("polars:rolling2_apply_idx:arguments", format!("call {} (w {})", i, w));
        }
    }
    // slice forms: rolling_custom (returned) and the lazy iterator
    let log: RefCell<Vec<Vec<u64>>> = RefCell::new(vec![]);
    let out: Vec<i32> = ca
        .rolling_custom::<Vec<i32>, i32, _>(
            w,
            |s| {
                log.borrow_mut().push(s.into_iter().map(key).collect());
                log.borrow().len() as i32 - 1
            },
            None,
        )
        .unwrap();
    let l = log.into_inner();
    if l.len() != len || out.len() != len {
        return fail("polars:rolling_custom:call-count", format!("{} calls for {} positions", l.len(), len));
    }
    for i in 0..len {
        let lo = (i + 1).saturating_sub(w);
        if l[i][..] != xb[lo..=i] || out[i] != i as i32 {
            return fail("polars:rolling_custom:window-slice", format!("call {} (w {}, chunks at {:?}): slice of {} elements", i, w, p.cuts, l[i].len()));
        }
    }
    let lens: Vec<usize> = Iterator::collect(ca.rolling_custom_iter(w, |s| GetLen::len(&s)));
    for i in 0..len {
        if lens.len() != len || lens[i] != (i + 1).min(w) {
            return fail("polars:rolling_custom_iter:window-slice", format!("position {} (w {}): {:?}", i, w, lens));
        }
    }
    Ok(())
}

fn main() {
    // the Polars container iterators also belong to C09 (trusted-length law): `./check C09 thorough`
    // runs this binary restricted to the accessor sub-property and labelled C09
    let id: &'static str = match std::env::var("VERIF_PROPERTY_ID").as_deref() {
        Ok("C09") => "C09",
        _ => "C07",
    };
    let mut p = Property::new(
        id,
        "Polars cells of C07: a logical Option<f64> series is built as a Float64Chunked with 1..=3 chunks (append) and a validity bitmap; accessors (len, get, uget, titer forward / reversed, every slice(a,b)), the trusted-length law of its iterator, 23 null-aware rolling entry points and 7 two-series ones (Polars x Polars and Vec x Polars), Polars as output container through the iterator drivers, mapping functions fed from titer() and aggregations must be bit-identical to the Vec<Option<f64>> reference. Non-trivial = len >= 3 with at least 2 chunks; distinct = distinct serialised cases",
    )
    .assume("Polars output through uset / *_to is documented as unsupported and not requested (DESIGN 5.7)");
    p.add(sub("polars:rolling", 8000, 200000, pl_case, check_rolling));
    p.add(sub("polars:rolling_two_series", 4000, 100000, pl_case, check_two));
    p.add(sub("polars:accessors_map_agg", 3000, 60000, pl_case, check_access_map_agg));
    p.add(sub("polars:drivers", 3000, 60000, pl_case, check_drivers));
    p.add(sub("polars:string_columns", 2000, 40000, pl_case, check_strings));
    p.add(sub("polars:datetime_columns", 2000, 40000, pl_case, check_datetimes));
    main_for(p);
}
