//! C18 — parsers are total and round-trip with their formatters.
use proptest::prelude::*;
use serde::{Deserialize, Serialize};
use tevec::prelude::{unit, DateTime, Time, TimeDelta, TimeUnitTrait};
use tvh::civil;
use tvh::fuzzable::{all_parsers, ALPHABET, FORMATS};
use tvh::engine::{fail, main_for, sub, CheckResult, Obs, Property, Tier};

const UNITS: [&str; 10] = ["ns", "us", "ms", "s", "m", "h", "d", "w", "mo", "y"];

#[derive(Clone, Debug, Serialize, Deserialize)]
struct StrCase {
    s: String,
}

fn term_strategy() -> impl Strategy<Value = String> {
    (prop_oneof![3 => Just(""), 1 => Just("-"), 1 => Just("+")], 0u32..=1_000_000, 0usize..10).prop_map(|(sg, n, u)| format!("{}{}{}", sg, n, UNITS[u]))
}

fn wellformed_strategy() -> impl Strategy<Value = String> {
    proptest::collection::vec(term_strategy(), 0..=6).prop_map(|v| v.concat())
}

fn datetime_text() -> impl Strategy<Value = String> {
    (1i64..=9999, 1u32..=12, 1u32..=28, 0u32..24, 0u32..60, 0u32..60, 0usize..11, 0u32..1_000_000_000).prop_map(|(y, m, d, hh, mm, ss, f, ns)| {
        let nd = chrono::NaiveDate::from_ymd_opt(y as i32, m, d).unwrap().and_hms_nano_opt(hh, mm, ss, ns).unwrap();
        nd.format(FORMATS[f]).to_string()
    })
}

fn mutate(s: String, ops: Vec<(u8, u16, u8)>) -> String {
    let mut cs: Vec<char> = s.chars().collect();
    for (kind, pos, sym) in ops {
        let p = if cs.is_empty() { 0 } else { pos as usize % (cs.len() + 1) };
        let ch = ALPHABET[sym as usize % ALPHABET.len()];
        match kind % 6 {
            0 => {
                if p < cs.len() {
                    cs.remove(p);
                }
            },
            1 => {
                if p < cs.len() {
                    let c = cs[p];
                    cs.insert(p, c);
                }
            },
            2 => cs.insert(p, ch),
            3 => {
                if p < cs.len() {
                    cs[p] = ch;
                }
            },
            4 => cs.truncate(p),
            _ => {
                // a run of signs or a 20-digit number
                let extra: Vec<char> = if sym % 2 == 0 { "--+-".chars().collect() } else { "99999999999999999999".chars().collect() };
                for (k, e) in extra.into_iter().enumerate() {
                    cs.insert((p + k).min(cs.len()), e);
                }
            },
        }
    }
    cs.into_iter().collect()
}

fn str_case(_t: Tier) -> impl Strategy<Value = StrCase> {
    let mutations = || proptest::collection::vec((any::<u8>(), any::<u16>(), any::<u8>()), 0..4);
    prop_oneof![
        // small alphabet that reaches the scanner's states
        3 => proptest::collection::vec(0usize..ALPHABET.len(), 0..12).prop_map(|v| v.into_iter().map(|i| ALPHABET[i]).collect::<String>()),
        // arbitrary unicode
        1 => proptest::collection::vec(any::<char>(), 0..8).prop_map(|v| v.into_iter().collect::<String>()),
        // mutated well-formed durations
        3 => (wellformed_strategy(), mutations()).prop_map(|(s, m)| mutate(s, m)),
        // mutated date-time texts
        2 => (datetime_text(), mutations()).prop_map(|(s, m)| mutate(s, m)),
        // date-time texts around the limits of the nanosecond unit (1677-09-21 00:12:43.145224192 ..
        // 2262-04-11 23:47:16.854775807), where representability changes within a day
        2 => (any::<bool>(), -90_000i64..90_000, 0u32..1_000_000_000, 0usize..11, mutations()).prop_map(|(hi, off, ns, f, m)| {
            let base = if hi { 9_223_372_036i64 } else { -9_223_372_037i64 };
            let nd = chrono::DateTime::from_timestamp(base + off, ns).unwrap().naive_utc();
            mutate(nd.format(FORMATS[f]).to_string(), if ns % 3 == 0 { m } else { vec![] })
        }),
        // overflowing numbers with valid units
        1 => (prop_oneof![Just(i64::MAX as i128), Just(i64::MAX as i128 + 1), Just(i64::MIN as i128), Just(u64::MAX as i128), Just(9_223_372_036_854_775i128), Just(i32::MAX as i128 + 1), Just(200_000_000_000i128)], 0usize..10).prop_map(|(n, u)| format!("{}{}", n, UNITS[u])),
    ]
    .prop_map(|s| StrCase { s })
}

fn check_total(c: &StrCase, obs: &mut Obs) -> CheckResult {
    let oks = all_parsers(&c.s);
    let first_bad = c.s.chars().next().map(|ch| !(ch.is_ascii_digit() || ch == '-' || ch == '+')).unwrap_or(true);
    obs.set_nontrivial(!c.s.is_empty() && !first_bad);
    obs.class_if(oks > 0, "some_parser_accepted");
    obs.class_if(c.s.is_empty(), "empty");
    obs.class_if(!c.s.is_ascii(), "multi_byte");
    obs.class_if(c.s.len() > 24, "long");
    Ok(())
}

// ---- well-formed durations parse to the sum of their terms

#[derive(Clone, Debug, Serialize, Deserialize)]
struct TermCase {
    terms: Vec<(i8, u32, usize)>, // sign (-1, 0 = none, 1 = '+'), magnitude, unit index
}

fn term_case(_t: Tier) -> impl Strategy<Value = TermCase> {
    proptest::collection::vec((-1i8..=1, prop_oneof![2 => 0u32..=12, 2 => 0u32..=10_000, 1 => 0u32..=1_000_000, 1 => (0u32..=1000).prop_map(|k| k * 1000)], 0usize..10), 0..=6).prop_map(|terms| TermCase { terms })
}

fn check_terms(c: &TermCase, obs: &mut Obs) -> CheckResult {
    let mut s = String::new();
    let mut months: i128 = 0;
    let mut ns: i128 = 0;
    for (sg, n, u) in &c.terms {
        // keep every term far from overflow: weeks / days / months bounded separately
        let n = match UNITS[*u] {
            "w" => *n % 10_001,
            "y" | "mo" => *n % 10_001,
            "d" => *n % 100_001,
            _ => *n,
        } as i128;
        let v = if *sg < 0 { -n } else { n };
        s.push_str(match sg {
            -1 => "-",
            1 => "+",
            _ => "",
        });
        s.push_str(&n.to_string());
        s.push_str(UNITS[*u]);
        match UNITS[*u] {
            "ns" => ns += v,
            "us" => ns += v * 1_000,
            "ms" => ns += v * 1_000_000,
            "s" => ns += v * 1_000_000_000,
            "m" => ns += v * 60_000_000_000,
            "h" => ns += v * 3_600_000_000_000,
            "d" => ns += v * 86_400_000_000_000,
            "w" => ns += v * 604_800_000_000_000,
            "mo" => months += v,
            _ => months += 12 * v,
        }
    }
    let want_inner = chrono::Duration::seconds(ns.div_euclid(1_000_000_000) as i64) + chrono::Duration::nanoseconds(ns.rem_euclid(1_000_000_000) as i64);
    for (how, r) in [("parse", TimeDelta::parse(&s)), ("from_str", s.parse::<TimeDelta>())] {
        match r {
            Err(e) => return fail(format!("wellformed:{}:rejected", how), format!("well-formed duration {:?} rejected: {}", s, e)),
            Ok(td) => {
                if td.months as i128 != months || td.inner != want_inner {
                    return fail(
                        format!("wellformed:{}:sum", how),
                        format!("{:?} parsed to months {} + {:?}, the terms sum to months {} + {:?}", s, td.months, td.inner, months, want_inner),
                    );
                }
            },
        }
    }
    let signed = c.terms.iter().any(|t| t.0 != 0);
    obs.set_nontrivial(c.terms.len() >= 2 && signed);
    obs.class_if(c.terms.is_empty(), "zero_terms");
    obs.class_if(c.terms.iter().any(|t| t.0 < 0), "negative_term");
    Ok(())
}

// ---- well-formed durations with huge magnitudes: the exact sum, or a rejection - never a wrapped value

#[derive(Clone, Debug, Serialize, Deserialize)]
struct BigTermCase {
    terms: Vec<(bool, u64, usize)>, // negative?, magnitude, unit index
}

fn big_term_case(_t: Tier) -> impl Strategy<Value = BigTermCase> {
    // magnitudes around the points where months leave i32, seconds leave i64 / chrono's range, and plain large
    let mag = prop_oneof![
        2 => (0u32..64, 0u64..4).prop_map(|(sh, d)| (1u64 << sh.min(63)).wrapping_add(d).wrapping_sub(2)),
        2 => (0u64..2000).prop_map(|d| 178_956_970 - 1000 + d),           // years -> months near 2^31
        2 => (0u64..2000).prop_map(|d| (1u64 << 31) - 1000 + d),          // months near 2^31
        1 => (0u64..2000).prop_map(|d| 9_223_372_036_854_775 - 1000 + d), // seconds near chrono's limit (ms-based)
        1 => (0u64..2000).prop_map(|d| 15_250_284_452_471 - 1000 + d),    // weeks near it
        1 => any::<u64>(),
        1 => 0u64..1000,
        1 => prop_oneof![Just(1u64 << 63), Just((1u64 << 63) - 1), Just((1u64 << 63) + 1), Just(u64::MAX)], // i64 limits as text
    ];
    proptest::collection::vec((any::<bool>(), mag, 0usize..10), 1..=3).prop_map(|terms| BigTermCase { terms })
}

fn check_big_terms(c: &BigTermCase, obs: &mut Obs) -> CheckResult {
    let mut s = String::new();
    let mut months: i128 = 0;
    let mut ns: i128 = 0;
    for (neg, n, u) in &c.terms {
        let v = if *neg { -(*n as i128) } else { *n as i128 };
        if *neg {
            s.push('-');
        }
        s.push_str(&n.to_string());
        s.push_str(UNITS[*u]);
        match UNITS[*u] {
            "ns" => ns += v,
            "us" => ns += v * 1_000,
            "ms" => ns += v * 1_000_000,
            "s" => ns += v * 1_000_000_000,
            "m" => ns += v * 60_000_000_000,
            "h" => ns += v * 3_600_000_000_000,
            "d" => ns += v * 86_400_000_000_000,
            "w" => ns += v * 604_800_000_000_000,
            "mo" => months += v,
            _ => months += 12 * v,
        }
    }
    let r = std::panic::catch_unwind(|| TimeDelta::parse(&s));
    let r = match r {
        Ok(r) => r,
        Err(_) => return fail("bigterms:panic", format!("TimeDelta::parse({:?}) panicked", s)),
    };
    let secs = ns.div_euclid(1_000_000_000);
    // representable: months fit an i32 (its minimum is the NaT marker) and chrono can hold the rest
    // (built from whole milliseconds + the sub-millisecond rest: chrono's range is +-i64::MAX ms, and
    // flooring to whole seconds first would wrongly exclude the last fraction of a second of that range)
    let ms_total = ns.div_euclid(1_000_000);
    let inner_exact = if ms_total.abs() <= i64::MAX as i128 { chrono::Duration::try_milliseconds(ms_total as i64).and_then(|d| d.checked_add(&chrono::Duration::nanoseconds(ns.rem_euclid(1_000_000) as i64))) } else { None };
    let _ = secs;
    let representable = months > i32::MIN as i128 && months <= i32::MAX as i128 && inner_exact.is_some();
    match r {
        Err(_) => {
            obs.class("rejected");
            if representable && c.terms.iter().all(|t| t.1 < 1_000_000) {
                return fail("bigterms:rejected-small", format!("{:?} rejected although every term is small", s));
            }
            // a single month-free term whose value in nanoseconds fits an i64 (the parser's own
            // accumulator for the sub-second units) has no intermediate that could overflow
            if representable && c.terms.len() == 1 && months == 0 && ns >= i64::MIN as i128 && ns <= i64::MAX as i128 {
                return fail("bigterms:rejected-single-term", format!("{:?} rejected although it is one term with a representable value (months {}, {} ns)", s, months, ns));
            }
        },
        Ok(td) => {
            if td.is_nat() {
                // months == i32::MIN is the NaT marker itself: the one sum whose exact representation IS
                // NaT (accepted); any other text silently turning into NaT is a wrong value
                if months == i32::MIN as i128 {
                    obs.class("sum_is_the_nat_marker");
                    return Ok(());
                }
                return fail("bigterms:nat", format!("{:?} parsed to NaT", s));
            }
            let want_inner = if representable { inner_exact } else { None };
            if td.months as i128 != months || Some(td.inner) != want_inner {
                return fail("bigterms:wrong-value", format!("{:?} parsed to months {} + {:?}, the terms sum to months {} + {} ns ({})", s, td.months, td.inner, months, ns, if representable { "representable" } else { "not representable: must be rejected" }));
            }
            obs.class("accepted_exact");
        },
    }
    obs.set_nontrivial(!representable || c.terms.iter().any(|t| t.1 > u32::MAX as u64));
    obs.class_if(!representable, "sum_not_representable");
    Ok(())
}

// ---- format / parse round trip

#[derive(Clone, Debug, Serialize, Deserialize)]
struct RtCase {
    u: usize,
    y: i64,
    mo: u32,
    d: u32,
    sod: i64,
    sub_ns: i64,
    /// nanosecond unit only: > 0 => i64::MAX - (edge - 1); < 0 => i64::MIN + 1 + (-edge - 1); 0 => ordinary
    #[serde(default)]
    edge: i64,
}

fn rt_case(_t: Tier) -> impl Strategy<Value = RtCase> {
    (0usize..4, prop_oneof![6 => 1i64..=9999, 4 => 1900i64..=2100, 1 => -400i64..=0, 1 => 10_000i64..=20_000], 1u32..=12, 1u32..=31, prop_oneof![1 => Just(0i64), 4 => 0i64..86400], prop_oneof![1 => Just(0i64), 3 => 0i64..1_000_000_000], prop_oneof![8 => Just(0i64), 1 => 1i64..200_000_000_000_000, 1 => -200_000_000_000_000i64..0]).prop_map(|(u, y, mo, d, sod, sub_ns, edge)| RtCase { u, y, mo, d, sod, sub_ns, edge })
}

fn rt_unit<U: TimeUnitTrait>(c: &RtCase, ns_per: i64, obs: &mut Obs) -> CheckResult
where
    DateTime<U>: TryInto<chrono::DateTime<chrono::Utc>> + From<chrono::DateTime<chrono::Utc>>,
{
    // the nanosecond unit only spans 1678..2261
    let y = if ns_per == 1 { 1678 + (c.y - 1).rem_euclid(2261 - 1678 + 1) } else { c.y };
    let d = c.d.min(civil::days_in_month(y, c.mo));
    let secs = civil::days_from_civil(y, c.mo, d) * 86400 + c.sod;
    let mut ts = (secs as i128 * 1_000_000_000 + c.sub_ns as i128).div_euclid(ns_per as i128) as i64;
    if ns_per == 1 && c.edge != 0 {
        // instants at the very ends of the nanosecond range
        ts = if c.edge > 0 { i64::MAX - (c.edge - 1) } else { i64::MIN + 1 + (-c.edge - 1) };
        obs.class("ns_range_edge");
        let dt = DateTime::<U>::new(ts);
        let text = dt.strftime(None);
        return match DateTime::<U>::parse(&text, None) {
            Ok(back) if back.0 == ts => {
                obs.set_nontrivial(true);
                Ok(())
            },
            Ok(back) => fail("roundtrip:ns-edge:value", format!("strftime({}) = {:?} parsed back to {}", ts, text, back.0)),
            Err(e) => fail("roundtrip:ns-edge:rejected", format!("strftime({}) = {:?} rejected: {}", ts, text, e)),
        };
    }
    let dt = DateTime::<U>::new(ts);
    let text = dt.strftime(None);
    for (how, r) in [("parse(None)", DateTime::<U>::parse(&text, None)), ("from_str", text.parse::<DateTime<U>>()), ("parse(default fmt)", DateTime::<U>::parse(&text, Some("%Y-%m-%d %H:%M:%S.%f")))] {
        match r {
            Ok(back) if back.0 == ts => {},
            Ok(back) => return fail("roundtrip:default:value", format!("{} of strftime({}) = {:?} gives {} ({:?})", how, ts, text, back.0, U::unit())),
            Err(e) => return fail("roundtrip:default:rejected", format!("{} rejects its own strftime output {:?}: {}", how, text, e)),
        }
    }
    if !(1..=9999).contains(&y) {
        // years that need a sign / a fifth digit: only the default text form is asked to round-trip
        obs.set_nontrivial(true);
        obs.class("year_outside_1..=9999");
        return Ok(());
    }
    // listed formats that carry the full instant on whole seconds / the date on midnights
    let whole = ts - (ts as i128 * ns_per as i128).rem_euclid(1_000_000_000) as i64 / ns_per;
    let midnight_secs = civil::days_from_civil(y, c.mo, d) * 86400;
    let midnight = (midnight_secs as i128 * 1_000_000_000 / ns_per as i128) as i64;
    let compact_ok = y >= 1000; // %Y without separators is only unambiguous with four digits
    for (f, full) in [(0usize, true), (10, true), (4, true), (7, true), (2, false), (9, false), (3, false), (5, false)] {
        if !compact_ok && matches!(f, 3 | 4 | 7) {
            continue;
        }
        let v = if full { whole } else { midnight };
        let t = DateTime::<U>::new(v);
        let text = t.strftime(Some(FORMATS[f]));
        for (how, r) in [("fmt", DateTime::<U>::parse(&text, Some(FORMATS[f]))), ("auto", DateTime::<U>::parse(&text, None))] {
            match r {
                Ok(back) if back.0 == v => {},
                Ok(back) => return fail(format!("roundtrip:{}:{}:value", FORMATS[f], how), format!("{:?} ({}) parsed back to {} instead of {} ({:?})", text, how, back.0, v, U::unit())),
                Err(e) => return fail(format!("roundtrip:{}:{}:rejected", FORMATS[f], how), format!("{:?} ({}) rejected: {}", text, how, e)),
            }
        }
    }
    // user formats that spell the time of day in other ways than %H:%M:%S (whole seconds)
    for f in ["%Y-%m-%d %X", "%Y-%m-%d %T", "%Y-%m-%d %r", "%Y-%m-%d %k:%M:%S", "%Y-%m-%d %-H:%M:%S", "%Y-%m-%d %I:%M:%S %p", "%Y-%m-%dT%H:%M:%S", "%d %b %Y %R:%S", "%Y-%j %H:%M:%S"] {
        let t = DateTime::<U>::new(whole);
        let text = t.strftime(Some(f));
        match DateTime::<U>::parse(&text, Some(f)) {
            Ok(back) if back.0 == whole => {},
            Ok(back) => return fail(format!("roundtrip:user-format:{}:value", f), format!("{:?} formatted with {:?} parsed back to {} instead of {} ({:?})", text, f, back.0, whole, U::unit())),
            Err(e) => return fail(format!("roundtrip:user-format:{}:rejected", f), format!("{:?} formatted with {:?} is rejected with the same format: {}", text, f, e)),
        }
    }
    obs.set_nontrivial(c.sub_ns % 1_000_000 != 0 || y < 1970);
    obs.class_if(y < 1970, "pre_1970");
    obs.class_if(y < 1000, "year<1000");
    Ok(())
}

fn check_rt(c: &RtCase, obs: &mut Obs) -> CheckResult {
    match c.u {
        0 => rt_unit::<unit::Second>(c, 1_000_000_000, obs),
        1 => rt_unit::<unit::Millisecond>(c, 1_000_000, obs),
        2 => rt_unit::<unit::Microsecond>(c, 1_000, obs),
        _ => rt_unit::<unit::Nanosecond>(c, 1, obs),
    }
}

// ---- time of day round trip

fn check_time_rt(c: &RtCase, obs: &mut Obs) -> CheckResult {
    let t = Time::from_num_seconds_from_midnight(c.sod, c.sub_ns);
    let cr = t.as_cr().unwrap();
    for (text, fmt) in [(cr.format("%H:%M:%S%.f").to_string(), None), (cr.format("%H:%M:%S%.9f").to_string(), Some("%H:%M:%S%.f"))] {
        match Time::parse(&text, fmt) {
            Ok(back) if back == t => {},
            Ok(back) => return fail("time-roundtrip:value", format!("{:?} parsed to {:?} instead of {:?}", text, back, t)),
            Err(e) => return fail("time-roundtrip:rejected", format!("{:?} rejected: {}", text, e)),
        }
    }
    obs.set_nontrivial(c.sub_ns != 0);
    Ok(())
}

fn main() {
    let mut p = Property::new(
        "C18",
        "totality cases = strings from (a) a 26-symbol alphabet {digits, + - . space : / T e, the unit letters, x, a two-byte letter}, (b) arbitrary unicode, (c) well-formed duration strings with 0..=3 mutations (delete / duplicate / insert / replace a character, truncate, insert a sign run or a 20-digit number), (d) formatted date-time texts in each listed format with mutations, (e) overflowing numbers with valid units; each string is fed to TimeDelta::parse/FromStr, DateTime::<4 units>::parse with fmt None and each of the 11 listed formats and FromStr, Time::parse/FromStr: any panic is a violation. \
         term-sum cases = sequences of 0..=6 optionally signed integers with one of the ten units: parsed months / fixed part must equal the i128 sum of the terms. \
         round-trip cases = instants (years 1..=9999; 1678..2261 for ns) at each unit: parse(strftime(None)) == t through parse(None) / FromStr / explicit default format, and for the listed formats that carry the full instant (whole seconds) or the date (midnights), with fmt = Some(f) and None; time of day through %H:%M:%S%.f. \
         Non-trivial = (totality) non-empty string not rejectable at its first character; (terms) >= 2 terms with a sign; (round trip) sub-millisecond part or pre-1970; distinct = distinct serialised cases",
    )
    .assume("compact %Y%m%d-style formats are round-tripped for four-digit years only")
    .assume("thorough tier: libFuzzer target fz_parse (bytes -> lossy UTF-8 or 26-symbol alphabet) runs the same parser set under ASan")
    .raw(|bytes| ("parsers_total".to_string(), serde_json::json!({"s": tvh::fuzzable::decode_parse(bytes)})));
    p.add(sub("parsers_total", 60000, 3000000, str_case, check_total));
    p.add(sub("wellformed_term_sum", 30000, 1000000, term_case, check_terms));
    p.add(sub("wellformed_huge_terms", 20000, 600000, big_term_case, check_big_terms));
    p.add(sub("datetime_roundtrip", 30000, 1000000, rt_case, check_rt));
    p.add(sub("time_roundtrip", 10000, 300000, rt_case, check_time_rt));
    main_for(p);
}
