//! C12 — quantiles, percentile ranks, ranks and partitions are true order statistics.
use proptest::prelude::*;
use serde::{Deserialize, Serialize};
use tevec::prelude::{AggValidExt, Cast, IsNone, MapValidVec, Number, PercentileOfMethod, QuantileMethod, Vec1View, VecAggValidExt};
use tvh::backends::{with_backend, Backend, ViewFn};
use tvh::conv::{materialize, InElem, OutElem};
use tvh::engine::{fail, main_for, sub, CheckResult, Fail, Obs, Property, Tier};
use tvh::gen::{backend_strategy, idx, len_strategy, raw_series_of, series_of, InT, Series, TIE_CLASSES};

const U: f64 = 1.1102230246251565e-16;

#[derive(Clone, Copy, Debug, PartialEq, Serialize, Deserialize)]
enum Enc {
    F64,
    OptF64,
    I32,
}

#[derive(Clone, Debug, Serialize, Deserialize)]
struct OCase {
    x: Series,
    enc: Enc,
    /// quantile as a rational qa/qb, optionally nudged by +-1e-13/(n-1)
    qa: u32,
    qb: u32,
    nudge: i8,
    k: usize,
    flags: u8,
    score_sel: u16,
    bk: Backend,
}

fn o_case(tier: Tier) -> impl Strategy<Value = OCase> {
    (
        raw_series_of(len_strategy(tier, 24, 80), TIE_CLASSES),
        0usize..3,
        any::<u8>(),
        (1u32..=12, any::<u16>(), 0u8..6),
        any::<u16>(),
        any::<u8>(),
        any::<u16>(),
        backend_strategy(),
    )
        .prop_map(|(mut rs, e, single, (qb, qs, qm), ks, flags, score_sel, bk)| {
            let enc = [Enc::F64, Enc::OptF64, Enc::I32][e];
            // explicit class: exactly one valid element, not in first position
            let force_single = single % 16 == 0 && enc != Enc::I32 && rs.raw.len() >= 2;
            if force_single {
                rs.nullpat = 0;
            }
            let (mut x, _) = series_of(
                &rs,
                match enc {
                    Enc::F64 => InT::F64,
                    Enc::OptF64 => InT::OptF64,
                    Enc::I32 => InT::I32,
                },
            );
            if force_single {
                let keep = 1 + (single as usize / 16) % (x.len() - 1);
                for (i, v) in x.iter_mut().enumerate() {
                    if i != keep {
                        *v = None;
                    }
                }
            }
            // the class the property singles out: nulls before the first valid element
            if single % 3 == 1 && enc != Enc::I32 && !x.is_empty() {
                x[0] = None;
            }
            let len = x.len();
            let (qa, qb, nudge) = match qm {
                0 => (0, 1, 0),
                1 => (1, 1, 0),
                2 => (1, 2, 0),
                3 => ((qs as u32) % (qb + 1), qb, 0),
                4 => ((qs as u32) % (qb + 1), qb, if qs % 2 == 0 { 1 } else { -1 }),
                _ => {
                    // j/(n-1) grid: (n-1) q is an integer in exact arithmetic
                    let n = x.iter().filter(|v| v.is_some()).count();
                    if n >= 2 { ((qs as u32) % (n as u32), (n - 1) as u32, (qs % 5) as i8 - 2) } else { (1, 2, 0) }
                },
            };
            OCase {
                x,
                enc,
                qa,
                qb,
                nudge,
                k: idx(ks, len + 2),
                flags,
                score_sel,
                bk,
            }
        })
}

fn q_of(c: &OCase, n: usize) -> f64 {
    let mut q = c.qa as f64 / c.qb as f64;
    if c.nudge != 0 && n >= 2 {
        // +-1: 1e-13, +-2: 1e-11 away from the grid point (far outside the rounding distance of 5.5)
        q += c.nudge.signum() as f64 * if c.nudge.abs() >= 2 { 1e-11 } else { 1e-13 } / (n - 1) as f64;
    }
    q.clamp(0.0, 1.0)
}

fn sorted_valid(x: &Series) -> Vec<f64> {
    let mut s: Vec<f64> = x.iter().filter_map(|v| *v).collect();
    s.sort_by(|a, b| a.partial_cmp(b).unwrap());
    s
}

struct QuantFn {
    q: f64,
    m: QuantileMethod,
}
impl<T> ViewFn<T> for QuantFn
where
    T: IsNone + Cast<f64>,
    T::Inner: Number,
{
    type Out = (Result<f64, String>, &'static str);
    fn call<V: Vec1View<T>>(&mut self, v: &V, label: &'static str) -> Self::Out {
        (v.vquantile(self.q, self.m).map_err(|e| e.to_string()), label)
    }
}

fn quantile_on(c: &OCase, q: f64, m: QuantileMethod) -> (Result<f64, String>, &'static str) {
    match c.enc {
        Enc::F64 => with_backend(c.bk, &materialize::<f64>(&c.x), 7.0, &mut QuantFn { q, m }),
        Enc::OptF64 => with_backend(c.bk, &materialize::<Option<f64>>(&c.x), Some(7.0), &mut QuantFn { q, m }),
        Enc::I32 => with_backend(c.bk, &materialize::<i32>(&c.x), 7, &mut QuantFn { q, m }),
    }
}

/// Lower / Higher of data that contain infinite elements: the result is exactly the order statistic
/// below / above the index (n-1)q - an infinite neighbour is returned as that infinity, never as a
/// finite stand-in. Only the two methods that return an element are compared (interpolating between
/// an infinity and anything is outside the property); within 1e-9 of a grid point either side's
/// neighbour is accepted (DESIGN 5.5).
fn check_quantile_inf(c: &OCase, obs: &mut Obs) -> CheckResult {
    let s = sorted_valid(&c.x);
    let n = s.len();
    if n < 2 || c.enc == Enc::I32 {
        obs.set_nontrivial(false);
        return Ok(());
    }
    let q = q_of(c, n);
    let pos = (n - 1) as f64 * q;
    let near = (pos - pos.round()).abs() < 1e-9;
    let (lo, hi) = if near { let k = pos.round() as usize; (k.saturating_sub(1), (k + 1).min(n - 1)) } else { (pos.floor() as usize, pos.ceil() as usize) };
    for (mname, m) in [("lower", QuantileMethod::Lower), ("higher", QuantileMethod::Higher)] {
        let (r, label) = quantile_on(c, q, m);
        obs.class(label);
        let got = match r {
            Ok(g) => g,
            Err(e) => return fail(format!("vquantile:inf:{}:error", mname), format!("vquantile({}) returned an error for q in [0,1]: {}", q, e)),
        };
        let ok = if near { s[lo..=hi].iter().any(|v| *v == got) } else if mname == "lower" { got == s[lo] } else { got == s[hi] };
        if !ok {
            return fail(format!("vquantile:inf:{}", mname), format!("vquantile(q={}, {}) of sorted valid {:?} = {:e}, expected the order statistic at index {} (pos {})", q, mname, s, got, if mname == "lower" { lo } else { hi }, pos));
        }
    }
    let ninf = s.iter().filter(|v| v.is_infinite()).count();
    obs.set_nontrivial(ninf > 0 && !near);
    obs.class_if(s[lo].is_infinite() || s[hi].is_infinite(), "infinite_neighbour");
    Ok(())
}

fn check_quantile(c: &OCase, obs: &mut Obs) -> CheckResult {
    let s = sorted_valid(&c.x);
    let n = s.len();
    let q = q_of(c, n);
    let first_valid = c.x.iter().position(|v| v.is_some());
    let where_valid = match (n, first_valid) {
        (1, Some(0)) => "single-valid-first",
        (1, Some(_)) => "single-valid-not-first",
        _ => "general",
    };
    for (mname, m) in [("linear", QuantileMethod::Linear), ("lower", QuantileMethod::Lower), ("higher", QuantileMethod::Higher), ("midpoint", QuantileMethod::MidPoint)] {
        let (r, label) = quantile_on(c, q, m);
        obs.class(label);
        let got = match r {
            Ok(g) => g,
            Err(e) => return fail(format!("vquantile:{}:error", mname), format!("vquantile({}) returned an error for q in [0,1]: {}", q, e)),
        };
        let sig = format!("vquantile:{}:{}", mname, where_valid);
        if n == 0 {
            if !got.is_nan() {
                return fail(sig, format!("vquantile of no valid element = {}", got));
            }
            continue;
        }
        if got.is_nan() {
            return fail(sig, format!("vquantile(q={}, {}) of {:?} is null although {} valid element(s) exist", q, mname, c.x, n));
        }
        if n == 1 {
            if got != s[0] {
                return fail(sig, format!("vquantile of a single valid element {} = {}", s[0], got));
            }
            continue;
        }
        // exact rational position (n-1) q
        let pos = (n - 1) as f64 * q;
        let r_int = pos.round();
        // "within rounding distance of an integer" (DESIGN 5.5): the library forms (n-1) * q, or
        // (n-1) * (1-q) for q > 0.5, in f64; both carry at most a few units of roundoff of n-1
        let near_int = (pos - r_int).abs() <= 8.0 * U * (n - 1).max(1) as f64;
        let mut accept: Vec<(f64, f64)> = vec![];
        let pair = |i: usize, j: usize, frac: f64| -> (f64, f64) {
            let (a, b) = (s[i], s[j]);
            let mag = a.abs().max(b.abs());
            match m {
                QuantileMethod::Linear => (a + (b - a) * frac, 16.0 * U * mag + 8.0 * U * n as f64 * (b - a).abs() + 1e-300),
                QuantileMethod::Lower => (a, 0.0),
                QuantileMethod::Higher => (b, 0.0),
                QuantileMethod::MidPoint => ((a + b) / 2.0, 4.0 * U * mag),
            }
        };
        if near_int {
            let r = r_int as usize;
            accept.push((s[r], if matches!(m, QuantileMethod::Linear) { 1e-8 * (s[n - 1] - s[0]).abs() + 16.0 * U * s[r].abs() } else { 0.0 }));
            // q = a / 2^k without nudge (0, 1, 1/2, 1/4, 3/8 ..): q, 1 - q and (n-1) q are exact in f64, the
            // index IS the integer r whichever way the library forms it, and every method must return
            // s[r] - no neighbour is acceptable (in particular q = 0 is the minimum and q = 1 the maximum)
            let exact_q = c.nudge == 0 && c.qb.is_power_of_two();
            if !exact_q {
                if r >= 1 {
                    accept.push(pair(r - 1, r, 1.0));
                }
                if r + 1 < n {
                    accept.push(pair(r, r + 1, 0.0));
                }
            } else {
                obs.class("exact_integer_index");
            }
            obs.class("near_integer_index");
        } else {
            let (i, j) = (pos.floor() as usize, pos.ceil() as usize);
            accept.push(pair(i, j, pos - i as f64));
        }
        if !accept.iter().any(|(v, t)| got == *v || (got - v).abs() <= *t) {
            return fail(sig, format!("vquantile(q={}, {}) of sorted valid {:?} = {:e}, accepted {:?}", q, mname, s, got, accept));
        }
    }
    // median == 0.5-quantile
    let med = match c.enc {
        Enc::F64 => materialize::<f64>(&c.x).vmedian(),
        Enc::OptF64 => materialize::<Option<f64>>(&c.x).vmedian(),
        Enc::I32 => materialize::<i32>(&c.x).vmedian(),
    };
    let (q50, _) = quantile_on(c, 0.5, QuantileMethod::Linear);
    let q50 = q50.unwrap_or(f64::NAN);
    if med.to_bits() != q50.to_bits() && !(med.is_nan() && q50.is_nan()) {
        return fail("vmedian", format!("vmedian {} != vquantile(0.5) {}", med, q50));
    }
    let has_tie = s.windows(2).any(|w| w[0] == w[1]);
    obs.set_nontrivial(n >= 3 && first_valid.map(|p| p > 0).unwrap_or(false) && has_tie);
    obs.class(where_valid);
    Ok(())
}

fn check_percentile(c: &OCase, obs: &mut Obs) -> CheckResult {
    let s = sorted_valid(&c.x);
    let n = s.len();
    // score: a value of the series, between values, or null
    let score: Option<f64> = match c.score_sel % 5 {
        0 if c.enc != Enc::I32 => None,
        1 | 2 if n > 0 => Some(s[idx(c.score_sel, n)]),
        _ => Some(((c.score_sel / 5) as i32 % 41 - 20) as f64),
    };
    for (mname, m) in [("rank", PercentileOfMethod::Rank), ("weak", PercentileOfMethod::Weak), ("strict", PercentileOfMethod::Strict)] {
        let got = match c.enc {
            Enc::F64 => materialize::<f64>(&c.x).vpercentile_of(f64::from_logical(score), m),
            Enc::OptF64 => materialize::<Option<f64>>(&c.x).vpercentile_of(score, m),
            Enc::I32 => materialize::<i32>(&c.x).vpercentile_of(score.unwrap() as i32, m),
        };
        let want = match score {
            None => f64::NAN,
            Some(sc) if n > 0 => {
                let less = s.iter().filter(|v| **v < sc).count() as f64;
                let eq = s.iter().filter(|v| **v == sc).count() as f64;
                match m {
                    PercentileOfMethod::Rank => (less + if eq > 0.0 { (eq + 1.0) / 2.0 } else { 0.0 }) / n as f64,
                    PercentileOfMethod::Weak => (less + eq) / n as f64,
                    PercentileOfMethod::Strict => less / n as f64,
                }
            },
            _ => f64::NAN,
        };
        let ok = (got.is_nan() && want.is_nan()) || (got - want).abs() <= 4.0 * U * want.abs();
        if !ok {
            return fail(format!("vpercentile_of:{}", mname), format!("vpercentile_of({:?}, {}) of {:?} = {}, definition gives {}", score, mname, c.x, got, want));
        }
    }
    obs.set_nontrivial(n >= 3 && c.x.first().map(|v| v.is_none()).unwrap_or(false) && s.windows(2).any(|w| w[0] == w[1]));
    obs.class_if(score.is_none(), "null_score");
    Ok(())
}

struct RankFn {
    pct: bool,
    rev: bool,
    opt_out: bool,
}
impl<T> ViewFn<T> for RankFn
where
    T: IsNone + PartialEq,
    T::Inner: PartialOrd,
{
    type Out = (Series, &'static str);
    fn call<V: Vec1View<T>>(&mut self, v: &V, label: &'static str) -> Self::Out {
        if self.opt_out {
            let r: Vec<Option<f64>> = v.vrank(self.pct, self.rev);
            (r.iter().map(|x| x.to_logical()).collect(), label)
        } else {
            let r: Vec<f64> = v.vrank(self.pct, self.rev);
            (r.iter().map(|x| x.to_logical()).collect(), label)
        }
    }
}

fn check_rank(c: &OCase, obs: &mut Obs) -> CheckResult {
    let (pct, rev, opt_out) = (c.flags & 1 != 0, c.flags & 2 != 0, c.flags & 4 != 0);
    let mut f = RankFn { pct, rev, opt_out };
    let (got, label) = match c.enc {
        Enc::F64 => with_backend(c.bk, &materialize::<f64>(&c.x), 7.0, &mut f),
        Enc::OptF64 => with_backend(c.bk, &materialize::<Option<f64>>(&c.x), Some(7.0), &mut f),
        Enc::I32 => with_backend(c.bk, &materialize::<i32>(&c.x), 7, &mut f),
    };
    obs.class(label);
    let valid: Vec<f64> = c.x.iter().filter_map(|v| *v).collect();
    let n = valid.len();
    if got.len() != c.x.len() {
        return fail("vrank:len", format!("vrank returned {} ranks for {} elements", got.len(), c.x.len()));
    }
    let shape = if n == 0 { "all-null" } else if c.x.len() == 1 { "len1" } else { "general" };
    for (i, v) in c.x.iter().enumerate() {
        let want = v.map(|v| {
            let less = valid.iter().filter(|a| **a < v).count() as f64;
            let greater = valid.iter().filter(|a| **a > v).count() as f64;
            let eq = valid.iter().filter(|a| **a == v).count() as f64;
            let r = if rev { greater } else { less } + (eq + 1.0) / 2.0;
            if pct { r / n as f64 } else { r }
        });
        let ok = match (got[i], want) {
            (None, None) => true,
            (Some(g), Some(w)) => (g - w).abs() <= 8.0 * U * w.abs(),
            _ => false,
        };
        if !ok {
            return fail(format!("vrank:{}", shape), format!("vrank(pct {}, rev {}) of {:?} at {}: got {:?}, average rank is {:?}", pct, rev, c.x, i, got[i], want));
        }
    }
    let mut sv = valid.clone();
    sv.sort_by(|a, b| a.partial_cmp(b).unwrap());
    obs.set_nontrivial(n >= 3 && c.x.first().map(|v| v.is_none()).unwrap_or(false) && sv.windows(2).any(|w| w[0] == w[1]));
    obs.class(shape);
    Ok(())
}

struct PartFn {
    k: usize,
    sort: bool,
    rev: bool,
}
impl<T> ViewFn<T> for PartFn
where
    T: IsNone + OutElem,
    T::Inner: Number,
{
    type Out = (Vec<i32>, Series, &'static str);
    fn call<V: Vec1View<T>>(&mut self, v: &V, label: &'static str) -> Self::Out {
        let a: Vec<i32> = Iterator::collect(v.varg_partition(self.k, self.sort, self.rev));
        let p: Vec<T> = Iterator::collect(v.vpartition(self.k, self.sort, self.rev));
        (a, p.iter().map(|x| x.to_logical()).collect(), label)
    }
}

fn check_partition(c: &OCase, obs: &mut Obs) -> CheckResult {
    let (sort, rev) = (c.flags & 8 != 0, c.flags & 16 != 0);
    let k = c.k;
    let mut f = PartFn { k, sort, rev };
    // partitions need a nullable element type for their padding (DESIGN 5.7): f64 / Option<f64>
    let (args, vals, label) = match c.enc {
        Enc::OptF64 => with_backend(c.bk, &materialize::<Option<f64>>(&c.x), Some(7.0), &mut f),
        _ => with_backend(c.bk, &materialize::<f64>(&c.x), 7.0, &mut f),
    };
    obs.class(label);
    let mut s = sorted_valid(&c.x);
    if rev {
        s.reverse();
    }
    let n = s.len();
    let m = (k + 1).min(n);
    let want: Vec<f64> = s[..m].to_vec(); // the min(k+1, n) smallest (largest) valid values, in order
    let shape = format!("{}{}", if sort { "sorted" } else { "unsorted" }, if k + 1 > c.x.len() { ":k+1>len" } else if k + 1 > n { ":k+1>valid" } else { "" });
    let desc = format!("(k={}, sort {}, rev {}) of {:?}", k, sort, rev, c.x);
    // ---- vpartition
    if vals.len() != k + 1 {
        return fail(format!("vpartition:len:{}", shape), format!("vpartition{} has {} entries, expected k+1 = {}", desc, vals.len(), k + 1));
    }
    let first_pad = vals.iter().position(|v| v.is_none()).unwrap_or(vals.len());
    if vals[first_pad..].iter().any(|v| v.is_some()) {
        return fail(format!("vpartition:padding-order:{}", shape), format!("vpartition{} = {:?}: padding before a value", desc, vals));
    }
    let mut got_vals: Vec<f64> = vals[..first_pad].iter().map(|v| v.unwrap()).collect();
    if first_pad != m {
        return fail(format!("vpartition:count:{}", shape), format!("vpartition{} = {:?}: {} values, expected min(k+1, valid) = {}", desc, vals, first_pad, m));
    }
    if sort && got_vals != want {
        return fail(format!("vpartition:order:{}", shape), format!("vpartition{} = {:?}, expected {:?}", desc, vals, want));
    }
    let cmpf = |a: &f64, b: &f64| if rev { b.partial_cmp(a).unwrap() } else { a.partial_cmp(b).unwrap() };
    got_vals.sort_by(cmpf);
    if got_vals != want {
        return fail(format!("vpartition:multiset:{}", shape), format!("vpartition{} = {:?}: not the {} {} valid values {:?}", desc, vals, m, if rev { "largest" } else { "smallest" }, want));
    }
    // ---- varg_partition
    if args.len() != k + 1 {
        return fail(format!("varg_partition:len:{}", shape), format!("varg_partition{} has {} entries, expected {}", desc, args.len(), k + 1));
    }
    let first_pad = args.iter().position(|v| *v == -1).unwrap_or(args.len());
    if args[first_pad..].iter().any(|v| *v != -1) {
        return fail(format!("varg_partition:padding-order:{}", shape), format!("varg_partition{} = {:?}: padding before an index", desc, args));
    }
    if first_pad != m {
        return fail(format!("varg_partition:count:{}", shape), format!("varg_partition{} = {:?}: {} indices, expected {}", desc, args, first_pad, m));
    }
    let mut seen = std::collections::BTreeSet::new();
    let mut avals = vec![];
    for a in &args[..first_pad] {
        let i = *a as usize;
        if *a < 0 || i >= c.x.len() || !seen.insert(i) {
            return fail(format!("varg_partition:index:{}", shape), format!("varg_partition{} = {:?}: index {} out of range or repeated", desc, args, a));
        }
        match c.x[i] {
            None => return fail(format!("varg_partition:null-index:{}", shape), format!("varg_partition{} = {:?}: index {} refers to a null", desc, args, a)),
            Some(v) => avals.push(v),
        }
    }
    if sort && avals != want {
        return fail(format!("varg_partition:order:{}", shape), format!("varg_partition{} = {:?} -> values {:?}, expected {:?}", desc, args, avals, want));
    }
    avals.sort_by(cmpf);
    if avals != want {
        return fail(format!("varg_partition:multiset:{}", shape), format!("varg_partition{} = {:?}: values are not the {} extreme ones {:?}", desc, args, m, want));
    }
    // ---- non-nullable integer element types: no padding exists for them (DESIGN 5.7), but whenever
    // k + 1 <= len the k+1 extreme elements are all there, including the exact fit k + 1 == len
    let ints: Vec<i32> = c.x.iter().map(|v| v.unwrap_or(0.0) as i32).collect();
    let int_ok = c.x.iter().flatten().all(|v| v.fract() == 0.0 && v.abs() < 1e9);
    if int_ok && k + 1 <= ints.len() {
        let mut si = ints.clone();
        si.sort();
        if rev {
            si.reverse();
        }
        let want_i: Vec<i32> = si[..k + 1].to_vec();
        let gi: Vec<i32> = Iterator::collect(ints.vpartition(k, sort, rev));
        let wide: Vec<i64> = ints.iter().map(|v| *v as i64).collect();
        let gw: Vec<i64> = Iterator::collect(wide.vpartition(k, sort, rev));
        let us: Vec<usize> = ints.iter().map(|v| (*v as i64 + 2_000_000_000) as usize).collect();
        let gu: Vec<usize> = Iterator::collect(us.vpartition(k, sort, rev));
        for (ty, mut got) in [("i32", gi.iter().map(|v| *v as i64).collect::<Vec<i64>>()), ("i64", gw), ("usize", gu.iter().map(|v| *v as i64 - 2_000_000_000).collect())] {
            let want64: Vec<i64> = want_i.iter().map(|v| *v as i64).collect();
            if got.len() != k + 1 {
                return fail(format!("vpartition:{}:len:{}", ty, shape), format!("vpartition{} on {} elements has {} entries, expected {}", desc, ty, got.len(), k + 1));
            }
            if sort && got != want64 {
                return fail(format!("vpartition:{}:order:{}", ty, shape), format!("vpartition{} on {} elements = {:?}, expected {:?}", desc, ty, got, want64));
            }
            got.sort();
            if rev {
                got.reverse();
            }
            if got != want64 {
                return fail(format!("vpartition:{}:multiset:{}", ty, shape), format!("vpartition{} on {} elements: not the {} extreme values {:?}", desc, ty, k + 1, want64));
            }
        }
        let ai: Vec<i32> = Iterator::collect(ints.varg_partition(k, sort, rev));
        let mut av: Vec<i32> = vec![];
        let mut seen = std::collections::BTreeSet::new();
        for a in &ai {
            if *a < 0 || *a as usize >= ints.len() || !seen.insert(*a) {
                return fail(format!("varg_partition:i32:index:{}", shape), format!("varg_partition{} on i32 elements = {:?}", desc, ai));
            }
            av.push(ints[*a as usize]);
        }
        if ai.len() != k + 1 || (sort && av != want_i) {
            return fail(format!("varg_partition:i32:order:{}", shape), format!("varg_partition{} on i32 elements = {:?} -> {:?}, expected {:?}", desc, ai, av, want_i));
        }
        av.sort();
        if rev {
            av.reverse();
        }
        if av != want_i {
            return fail(format!("varg_partition:i32:multiset:{}", shape), format!("varg_partition{} on i32 elements = {:?}", desc, ai));
        }
        obs.class("integer_elements");
        obs.class_if(k + 1 == ints.len(), "integer_exact_fit");
    }
    // ---- every valid element equal to an extreme of the type (a sentinel-seeded search sees no
    // "improvement" over its seed there): indices must still be those of valid elements
    if n >= 1 {
        for ext in [f64::INFINITY, f64::NEG_INFINITY, f64::MAX, f64::MIN] {
            let xe: Vec<f64> = c.x.iter().map(|v| if v.is_some() { ext } else { f64::NAN }).collect();
            for kk in [0usize, k] {
                let idxs: Vec<i32> = Iterator::collect(xe.varg_partition(kk, sort, rev));
                let m2 = (kk + 1).min(n);
                let ok = idxs.len() == kk + 1 && idxs[..m2].iter().all(|i| *i >= 0 && (*i as usize) < xe.len() && c.x[*i as usize].is_some()) && idxs[m2..].iter().all(|i| *i == -1);
                if !ok {
                    return fail(format!("varg_partition:type-extreme:{}", shape), format!("varg_partition(k={}, sort {}, rev {}) of a series whose {} valid elements all equal {:e} (nulls as in {:?}) = {:?}", kk, sort, rev, n, ext, c.x, idxs));
                }
                let vals: Vec<f64> = Iterator::collect(xe.vpartition(kk, sort, rev));
                if vals.len() != kk + 1 || vals[..m2].iter().any(|v| *v != ext) || vals[m2..].iter().any(|v| !v.is_nan()) {
                    return fail(format!("vpartition:type-extreme:{}", shape), format!("vpartition(k={}, sort {}, rev {}) of a series whose valid elements all equal {:e} = {:?}", kk, sort, rev, ext, vals));
                }
            }
        }
        let xi: Vec<i32> = c.x.iter().map(|_| if rev { i32::MIN } else { i32::MAX }).collect();
        if k + 1 <= xi.len() {
            let idxs: Vec<i32> = Iterator::collect(xi.varg_partition(k, sort, rev));
            if idxs.len() != k + 1 || idxs.iter().any(|i| *i < 0) {
                return fail(format!("varg_partition:i32-type-extreme:{}", shape), format!("varg_partition(k={}, sort {}, rev {}) of {} copies of the i32 extreme = {:?}", k, sort, rev, xi.len(), idxs));
            }
        }
    }
    let has_tie = s.windows(2).any(|w| w[0] == w[1]);
    obs.set_nontrivial(n >= 3 && c.x.first().map(|v| v.is_none()).unwrap_or(false) && has_tie);
    obs.class_if(k + 1 >= n, "k>=valid-1");
    obs.class_if(k + 1 > c.x.len(), "k+1>len");
    obs.class_if(sort, "sort");
    Ok(())
}

/// Wide integers: the same integer-valued series shifted by a base beyond 2^53 (i64 / Option<i64>).
/// Order statistics depend on the order only, so ranks and arg-partitions must be those of the small
/// offsets and value partitions must be base + the offsets' partition.
fn check_wide(c: &OCase, obs: &mut Obs) -> CheckResult {
    if c.x.iter().flatten().any(|v| v.fract() != 0.0 || v.abs() > 1e6) {
        obs.class("not_integer_valued_skipped");
        return Ok(());
    }
    const BASES: [i64; 4] = [1 << 53, 1 << 60, -(1 << 61), 1_700_000_000_123_456_789];
    let base = BASES[(c.k + c.x.len()) % 4];
    let (pct, rev, sort) = (c.flags & 1 != 0, c.flags & 2 != 0, c.flags & 8 != 0);
    let off: Vec<Option<i64>> = c.x.iter().map(|v| v.map(|v| v as i64)).collect();
    let wide: Vec<Option<i64>> = off.iter().map(|v| v.map(|v| v + base)).collect();
    let k = c.k;
    let ra: Vec<f64> = off.vrank(pct, rev);
    let rb: Vec<f64> = wide.vrank(pct, rev);
    if ra.iter().map(|v| v.to_bits()).collect::<Vec<_>>() != rb.iter().map(|v| v.to_bits()).collect::<Vec<_>>() && !(ra.iter().zip(rb.iter()).all(|(a, b)| (a.is_nan() && b.is_nan()) || a == b)) {
        return fail("wide:vrank", format!("vrank(pct {}, rev {}) of base {} + {:?} = {:?}, of the offsets alone {:?}", pct, rev, base, off, rb, ra));
    }
    let aa: Vec<i32> = Iterator::collect(off.varg_partition(k, true, rev));
    let ab: Vec<i32> = Iterator::collect(wide.varg_partition(k, true, rev));
    // ties may be ordered differently; compare the values the indices refer to
    let val = |idx: &Vec<i32>| -> Vec<Option<i64>> { idx.iter().map(|i| if *i < 0 { None } else { off[*i as usize] }).collect() };
    if val(&aa) != val(&ab) {
        return fail("wide:varg_partition", format!("varg_partition(k {}, sorted, rev {}) of base {} + {:?} = {:?}, of the offsets alone {:?}", k, rev, base, off, ab, aa));
    }
    let au: Vec<i32> = Iterator::collect(wide.varg_partition(k, false, rev));
    let mut vu = val(&au);
    let mut vs = val(&aa);
    let key = |v: &Option<i64>| v.map(|x| (0, x)).unwrap_or((1, 0));
    vu.sort_by_key(key);
    vs.sort_by_key(key);
    if vu != vs {
        return fail("wide:varg_partition:unsorted", format!("varg_partition(k {}, unsorted, rev {}) of base {} + {:?} = {:?}: not the same multiset as for the offsets ({:?})", k, rev, base, off, au, aa));
    }
    let pa: Vec<Option<i64>> = Iterator::collect(off.vpartition(k, sort, rev));
    let pb: Vec<Option<i64>> = Iterator::collect(wide.vpartition(k, sort, rev));
    let mut pa2: Vec<Option<i64>> = pa.iter().map(|v| v.map(|v| v + base)).collect();
    let mut pb2 = pb.clone();
    if !sort {
        pa2.sort_by_key(key);
        pb2.sort_by_key(key);
    }
    if pa2 != pb2 {
        return fail("wide:vpartition", format!("vpartition(k {}, sort {}, rev {}) of base {} + {:?} = {:?}, expected base + {:?}", k, sort, rev, base, off, pb, pa));
    }
    // plain i64 (no nulls)
    if off.iter().all(|v| v.is_some()) {
        let o: Vec<i64> = off.iter().map(|v| v.unwrap()).collect();
        let w: Vec<i64> = o.iter().map(|v| v + base).collect();
        let (ra, rb): (Vec<f64>, Vec<f64>) = (o.vrank(pct, rev), w.vrank(pct, rev));
        if ra != rb {
            return fail("wide:vrank:i64", format!("vrank of base {} + {:?} = {:?}, of the offsets {:?}", base, o, rb, ra));
        }
        if k + 1 <= o.len() {
            let (a, b): (Vec<i32>, Vec<i32>) = (Iterator::collect(o.varg_partition(k, true, rev)), Iterator::collect(w.varg_partition(k, true, rev)));
            if a.iter().map(|i| o[*i as usize]).collect::<Vec<_>>() != b.iter().map(|i| o[*i as usize]).collect::<Vec<_>>() {
                return fail("wide:varg_partition:i64", format!("varg_partition(k {}, sorted, rev {}) of base {} + {:?} = {:?}, of the offsets {:?}", k, rev, base, o, b, a));
            }
        }
    }
    let distinct_neighbours = off.iter().flatten().any(|a| off.iter().flatten().any(|b| a != b && (base as f64 + *a as f64) == (base as f64 + *b as f64)));
    obs.set_nontrivial(distinct_neighbours && off.len() >= 3);
    obs.class_if(distinct_neighbours, "f64_collapses_neighbours");
    Ok(())
}

fn main() {
    let _ = Fail { sig: String::new(), detail: String::new() };
    let mut p = Property::new(
        "C12",
        "cases = (tie-heavy series of length 0..=24 (thorough ..=80) with nulls in any position, incl. the explicit class 'exactly one valid element, not first'; encodings f64 / Option<f64> / i32; q = a/b with b <= 12, or j/(n-1) exactly (index within rounding distance of an integer) and nudged by +-1e-13 / +-1e-11 (off the grid), or 0, 1, 0.5; k in 0..=len+1; all flag combinations; scores from the series, between values, or null; input backend); oracle = sort-based order statistics on the non-null elements: quantile per DESIGN 5.5 (either neighbour accepted only within 8 u (n-1) of an integer index; linear within rounding, others exact), percentile-of-score from #less/#equal/#valid, average ranks, and a validity predicate for partitions (exactly k+1 entries; the non-padding entries are the min(k+1,n) extreme valid values as a multiset / in order if sorted; padding only after them; arg form: distinct in-range indices of non-null elements). \
         Non-trivial = >= 3 valid elements, a null in first position, and a tie; distinct = distinct serialised cases",
    )
    .assume("canonical nulls only (DESIGN 5.4); partitions run on nullable element types (5.7)");
    p.add(sub("vquantile", 20000, 600000, o_case, check_quantile));
    // the same data in a very small unit (neighbouring order statistics distinct but <= 1e-14 apart): an
    // absolute tolerance anywhere in the interpolation shows up here
    p.add(sub(
        "vquantile:tiny_unit",
        6000,
        200000,
        |t| {
            o_case(t).prop_map(|mut c| {
                if c.enc != Enc::I32 {
                    for v in c.x.iter_mut() {
                        *v = v.map(|x| x * 1e-15);
                    }
                }
                c
            })
        },
        check_quantile,
    ));
    p.add(sub(
        "vquantile:infinite_elements",
        6000,
        200000,
        |t| {
            o_case(t).prop_map(|mut c| {
                let k = c.x.len();
                for (i, v) in c.x.iter_mut().enumerate() {
                    // about a third of the valid elements become -inf / +inf (a pure function of the case)
                    if v.is_some() && (i * 7 + k) % 3 == 0 {
                        *v = Some(if (i + k) % 2 == 0 { f64::NEG_INFINITY } else { f64::INFINITY });
                    }
                }
                c
            })
        },
        check_quantile_inf,
    ));
    p.add(sub("vpercentile_of", 10000, 300000, o_case, check_percentile));
    p.add(sub("vrank", 20000, 600000, o_case, check_rank));
    p.add(sub("partition", 20000, 600000, o_case, check_partition));
    p.add(sub("wide_integers", 10000, 300000, o_case, check_wide));
    main_for(p);
}
