//! C07 — results are independent of input backend, output container and out-buffer path; each
//! container's accessors describe the same logical sequence.
use std::collections::VecDeque;
use std::sync::Arc;

use proptest::prelude::*;
use serde::{Deserialize, Serialize};
use tevec::export::ndarray::{s, Array1};
use tevec::prelude::{
    AggValidExt, AggValidFinal, CorrMethod, GetLen, IsNone, MapValidBasic, MapValidFinal, MapValidVec, PercentileOfMethod, QuantileMethod, TIter, Vec1View, VecAggValidExt, WinsorizeMethod,
};
use tvh::backends::{make_deque, strided_parent, with_backend, Backend, OutKind, ViewFn, VIEW_STEPS};
use tvh::conv::{materialize, normalize, OutElem};
use tvh::engine::{canary, fail, main_for, sub, sub_enum, CheckResult, Fail, Obs, Property, Tier};
use tvh::gen::*;
use tvh::model::{Stat, Stat2};
use tvh::rollcheck::{eval2_mat, eval_plain_mat, eval_valid_mat};

fn bits(s: &Series) -> Vec<u64> {
    s.iter().map(|v| v.map(|x| x.to_bits()).unwrap_or(u64::MAX)).collect()
}

const STATS: [Stat; 22] = [
    Stat::Sum,
    Stat::Mean,
    Stat::Ewm,
    Stat::Wma,
    Stat::Std,
    Stat::Var,
    Stat::Skew,
    Stat::Kurt,
    Stat::Fdiff(0.5),
    Stat::Min,
    Stat::Max,
    Stat::ArgMin,
    Stat::ArgMax,
    Stat::Rank { pct: false, rev: false },
    Stat::Rank { pct: true, rev: true },
    Stat::MinMaxNorm,
    Stat::ZScore,
    Stat::Reg,
    Stat::Tsf,
    Stat::RegSlope,
    Stat::RegIntercept,
    Stat::RegResidMean,
];
const STATS2: [Stat2; 10] = [
    Stat2::Cov,
    Stat2::Corr,
    Stat2::RegxAlpha,
    Stat2::RegxBeta,
    Stat2::RegxResidMean,
    Stat2::RegxResidStd,
    Stat2::RegxResidSkew,
    Stat2::RegxAllAlpha,
    Stat2::RegxAllBeta,
    Stat2::RegxAllSse,
];

fn nontrivial_cell(len: usize, bk: Backend, out_buf: bool, ok: OutKind, label: &str, obs: &mut Obs) {
    let special = match bk {
        Backend::Vec | Backend::Array => out_buf || ok != OutKind::Vec,
        Backend::Deque { .. } | Backend::ArcDeque { .. } => true,
        Backend::NdView { step } => step != 1 || out_buf,
        _ => true,
    };
    obs.set_nontrivial(len >= 3 && special);
    obs.class(match label {
        "vecdeque_wrapped" => "vecdeque_wrapped",
        other => match other {
            "vec" => "vec",
            "array" => "array",
            "vecdeque" => "vecdeque",
            "ndarray" => "ndarray",
            "ndviewmut" => "ndviewmut",
            "arc_vec" => "arc_vec",
            "arc_vecdeque" => "arc_vecdeque",
            "arc_ndarray" => "arc_ndarray",
            "ndview+1" => "ndview+1",
            "ndview+2" => "ndview+2",
            "ndview+3" => "ndview+3",
            "ndview-1" => "ndview-1",
            _ => "ndview-2",
        },
    });
    obs.class(ok.label());
    obs.class_if(out_buf, "out_buffer_path");
}

/// rolling single-series functions: every cell equals the Vec -> Vec returned reference
fn matrix_rolling(m: &MatCase, valid: bool, obs: &mut Obs) -> CheckResult {
    let stat = STATS[(m.c.p as usize) % STATS.len()];
    let stat = if !valid && !matches!(stat, Stat::Sum | Stat::Mean | Stat::Ewm | Stat::Wma | Stat::Std | Stat::Var | Stat::Skew | Stat::Kurt | Stat::Fdiff(_)) { Stat::Sum } else { stat };
    let name = format!("ts_{}{}", if valid { "v" } else { "" }, stat.name());
    let eval = |mm: &MatCase| if valid { eval_valid_mat(mm, stat) } else { eval_plain_mat(mm, stat) };
    let mut reference = m.clone();
    reference.bk = Backend::Vec;
    reference.ok = OutKind::Vec;
    reference.c.out_buf = false;
    let r = match eval(&reference) {
        Some(Ok((r, _))) => r,
        Some(Err(e)) => return fail(format!("{}:out-path", name), e),
        None => unreachable!(),
    };
    let (got, label) = match eval(m) {
        None => {
            obs.class("cell_not_offered_by_backend");
            return Ok(());
        },
        Some(Err(e)) => return fail(format!("{}:out-path", name), format!("{} on {:?}/{:?}: {}", name, m.bk, m.ok, e)),
        Some(Ok(v)) => v,
    };
    if bits(&got) != bits(&r) {
        let i = (0..r.len().min(got.len())).find(|i| bits(&got)[*i] != bits(&r)[*i]);
        return fail(
            format!("{}:backend-dependent", name),
            format!("{} (w {}, mp {:?}) on {} -> {:?} (out_buf {}) differs from the Vec reference at {:?}: {:?} vs {:?} (lengths {} / {})", name, m.c.w, m.c.mp, label, m.ok, m.c.out_buf, i, i.map(|i| got[i]), i.map(|i| r[i]), got.len(), r.len()),
        );
    }
    nontrivial_cell(m.c.x.len(), m.bk, m.c.out_buf, m.ok, label, obs);
    Ok(())
}

fn matrix_rolling2(m: &Mat2Case, obs: &mut Obs) -> CheckResult {
    let stat = STATS2[m.c.w % STATS2.len()];
    let name = format!("ts_v{}", stat.name());
    let mut reference = m.clone();
    reference.bk = Backend::Vec;
    reference.bk2 = Backend::Vec;
    reference.ok = OutKind::Vec;
    reference.c.out_buf = false;
    let (r, _) = eval2_mat(&reference, stat).map_err(|e| Fail { sig: format!("{}:out-path", name), detail: e })?;
    let (got, label) = eval2_mat(m, stat).map_err(|e| Fail { sig: format!("{}:out-path", name), detail: e })?;
    if bits(&got) != bits(&r) {
        return fail(format!("{}:backend-dependent", name), format!("{} on {} x {:?} -> {:?} differs from the Vec reference: {:?} vs {:?}", name, label, m.bk2, m.ok, got, r));
    }
    nontrivial_cell(m.c.x.len(), m.bk, m.c.out_buf, m.ok, label, obs);
    Ok(())
}

/// caller-supplied ndarray output buffers that are strided / reversed views of a larger buffer
fn matrix_nd_out_views(m: &MatCase, obs: &mut Obs) -> CheckResult {
    use std::mem::MaybeUninit;
    let stat = STATS[(m.c.p as usize) % STATS.len()];
    if matches!(stat, Stat::Fdiff(_)) {
        return Ok(());
    }
    let name = format!("ts_v{}", stat.name());
    let data: Vec<f64> = materialize(&m.c.x);
    let len = data.len();
    let step = match m.bk {
        Backend::NdView { step } => step,
        _ => [1isize, 2, 3, -1, -2][m.c.w % 5],
    };
    let reference: Vec<f64> = tvh::sut::via_vec(len, false, |buf| tvh::sut::roll_valid::<Vec<f64>, f64, Vec<f64>, f64>(&data, stat, m.c.w, m.c.mp, buf)).map_err(|e| Fail { sig: format!("{}:out-path", name), detail: e })?;
    const SENT: f64 = -123456.75;
    let st = step.unsigned_abs();
    let plen = if len == 0 { 0 } else { (len - 1) * st + 1 };
    // the view sits in the middle of a larger sentinel-filled allocation (len + 2 spare elements on
    // either side), so that an implementation that ignores the stride or the direction writes into the
    // padding - which is detected below - instead of outside the allocation
    let pad = len + 2;
    let mut parent: Array1<MaybeUninit<f64>> = Array1::from_elem(plen + 2 * pad, MaybeUninit::new(SENT));
    {
        let view = parent.slice_mut(s![pad..pad + plen;step]);
        debug_assert_eq!(view.len(), len);
        // input through both driver implementations: Vec (*_to bodies) and a wrapped VecDeque
        let r: Option<Array1<f64>> = if m.c.out_buf {
            let dq = make_deque(&data, 3);
            tvh::sut::roll_valid::<VecDeque<f64>, f64, Array1<f64>, f64>(&dq, stat, m.c.w, m.c.mp, Some(view))
        } else {
            tvh::sut::roll_valid::<Vec<f64>, f64, Array1<f64>, f64>(&data, stat, m.c.w, m.c.mp, Some(view))
        };
        if r.is_some() {
            return fail(format!("{}:out-path", name), "a value was returned although a buffer was supplied");
        }
    }
    let all: Vec<f64> = parent.iter().map(|x| unsafe { x.assume_init() }).collect();
    let got: Vec<f64> = parent.slice(s![pad..pad + plen;step]).iter().map(|x| unsafe { x.assume_init() }).collect();
    let fb = |v: &f64| if v.is_nan() { u64::MAX } else { v.to_bits() };
    if got.iter().map(fb).collect::<Vec<_>>() != reference.iter().map(fb).collect::<Vec<_>>() {
        return fail(format!("{}:nd-out-view", name), format!("{} written into an ndarray out view with step {} reads back {:?}, the Vec reference is {:?}", name, step, got, reference));
    }
    // nothing outside the view may have been touched
    let touched = all.iter().filter(|v| **v != SENT || false).count();
    let expected_touched = got.iter().filter(|v| **v != SENT).count();
    if touched != expected_touched {
        return fail(format!("{}:nd-out-view:outside-write", name), format!("{} wrote outside its out view (step {})", name, step));
    }
    obs.set_nontrivial(len >= 3 && step != 1);
    obs.class(match step {
        1 => "out_view+1",
        2 => "out_view+2",
        3 => "out_view+3",
        -1 => "out_view-1",
        _ => "out_view-2",
    });
    obs.class_if(m.c.out_buf, "vecdeque_input");
    Ok(())
}

// ---- mapping functions and aggregations fed from each backend

struct MapAggFn<'c> {
    c: &'c RollCase,
    /// half_life pads with nulls and is therefore only offered for nullable element types (5.7)
    nullable: bool,
}

fn fbits(v: f64) -> u64 {
    if v.is_nan() { u64::MAX } else { v.to_bits() }
}

/// everything reduced to a vector of bit patterns so that cells can be compared
impl<'c, T> ViewFn<T> for MapAggFn<'c>
where
    T: IsNone + Clone + OutElem + PartialEq + PartialOrd + tevec::prelude::Cast<f64> + std::ops::Sub<Output = T> + tevec::prelude::Zero + tvh::conv::InElem,
    T::Inner: tevec::prelude::Number + OutElem,
    T::Cast<f64>: OutElem,
    f64: tevec::prelude::Cast<T::Cast<f64>>,
{
    type Out = (Vec<u64>, &'static str);
    fn call<V: Vec1View<T>>(&mut self, v: &V, label: &'static str) -> Self::Out {
        let c = self.c;
        let mut out: Vec<u64> = vec![];
        let n = c.w as i32 - 2;
        let k = c.w % (v.len() + 2);
        let mp = c.mp.unwrap_or(1);
        let push = |out: &mut Vec<u64>, s: Series| {
            out.push(0xABCD_0000 + s.len() as u64);
            out.extend(bits(&s));
        };
        // view-based mapping functions
        push(&mut out, normalize(Iterator::collect::<Vec<T>>(v.vdiff(n, Some(T::from_logical(Some(0.0)))))));
        push(&mut out, normalize(Iterator::collect::<Vec<f64>>(v.vpct_change(n))));
        let r: Vec<f64> = v.vrank::<Vec<f64>, f64>(c.out_buf, c.w % 2 == 0);
        push(&mut out, normalize(r));
        push(&mut out, normalize(Iterator::collect::<Vec<i32>>(v.varg_partition(k, true, c.out_buf))));
        for (m, p) in [(WinsorizeMethod::Quantile, 0.1), (WinsorizeMethod::Median, 1.5), (WinsorizeMethod::Sigma, 1.0)] {
            push(&mut out, normalize(Iterator::collect::<Vec<f64>>(v.winsorize(m, Some(p)).unwrap())));
        }
        // iterator-based mapping functions fed from titer()
        let fill = T::from_logical(Some(1.0));
        push(&mut out, normalize(Iterator::collect::<Vec<T>>(v.titer().vshift(n, Some(fill.clone())))));
        push(&mut out, normalize(Iterator::collect::<Vec<T>>(v.titer().ffill(None))));
        push(&mut out, normalize(Iterator::collect::<Vec<T>>(v.titer().bfill(Some(fill.clone())))));
        push(&mut out, normalize(Iterator::collect::<Vec<T>>(v.titer().vclip(T::from_logical(Some(-1.0)), T::from_logical(Some(2.0))))));
        push(&mut out, normalize(Iterator::collect::<Vec<T>>(v.titer().vabs())));
        // aggregations
        use tevec::prelude::AggValidBasic;
        out.push(v.titer().count_valid() as u64);
        out.push(v.titer().count_none() as u64);
        out.push(fbits(v.titer().vmean()));
        out.push(fbits(v.titer().vvar(mp)));
        out.push(fbits(v.titer().vskew(mp)));
        out.push(fbits(v.titer().vkurt(mp)));
        out.push(v.titer().vmax().map(|x| x.bits()).unwrap_or(1));
        out.push(v.titer().vmin().map(|x| x.bits()).unwrap_or(1));
        out.push(v.titer().vargmax().map(|x| x as u64).unwrap_or(u64::MAX));
        out.push(v.titer().vargmin().map(|x| x as u64).unwrap_or(u64::MAX));
        out.push(v.titer().vfirst().map(|x| x.bits()).unwrap_or(1));
        out.push(v.titer().vlast().map(|x| x.bits()).unwrap_or(1));
        for (m, q) in [(QuantileMethod::Linear, 0.3), (QuantileMethod::Lower, 0.5), (QuantileMethod::Higher, 0.8), (QuantileMethod::MidPoint, 0.5)] {
            out.push(fbits(v.vquantile(q, m).unwrap_or(f64::NAN)));
        }
        out.push(fbits(v.vmedian()));
        out.push(fbits(v.titer().vpercentile_of(fill.clone(), PercentileOfMethod::Rank)));
        out.push(v.vcorr(v, c.mp, CorrMethod::Spearman).bits());
        out.push(v.vcorr(v, c.mp, CorrMethod::Pearson).bits());
        if self.nullable {
            out.push(v.half_life(c.mp.map(|m| m.max(1))) as u64);
        }
        out.push(GetLen::len(v) as u64);
        (out, label)
    }
}

fn matrix_map_agg(m: &MatCase, obs: &mut Obs) -> CheckResult {
    let c = &m.c;
    let (r, got, label) = match c.tin {
        InT::I32 | InT::I64 => {
            let d: Vec<i32> = materialize(&c.x);
            let (r, _) = with_backend(Backend::Vec, &d, -7, &mut MapAggFn { c, nullable: false });
            let (g, l) = with_backend(m.bk, &d, -7, &mut MapAggFn { c, nullable: false });
            (r, g, l)
        },
        _ => {
            let d: Vec<f64> = materialize(&c.x);
            let (r, _) = with_backend(Backend::Vec, &d, -7.0, &mut MapAggFn { c, nullable: true });
            let (g, l) = with_backend(m.bk, &d, -7.0, &mut MapAggFn { c, nullable: true });
            (r, g, l)
        },
    };
    if r != got {
        let i = (0..r.len().min(got.len())).find(|i| r[*i] != got[*i]);
        return fail("map_agg:backend-dependent", format!("mapping / aggregation results on {} differ from the Vec reference at flattened index {:?} (series {:?}, w {}, mp {:?})", label, i, c.x, c.w, c.mp));
    }
    nontrivial_cell(c.x.len(), m.bk, false, OutKind::Vec, label, obs);
    Ok(())
}

// ---- accessor coherence (exhaustive small scope)

#[derive(Clone, Debug, Serialize, Deserialize)]
struct AccCase {
    s: Series,
    bk: Backend,
}

/// generic accessors (everything except the slice content, whose type differs per backend)
struct AccFn<'a> {
    s: &'a Series,
}
impl<'a> ViewFn<f64> for AccFn<'a> {
    type Out = Result<&'static str, Fail>;
    fn call<V: Vec1View<f64>>(&mut self, v: &V, label: &'static str) -> Self::Out {
        let s = self.s;
        let n = s.len();
        let want: Vec<u64> = bits(s);
        let dec = |x: f64| if x.is_nan() { u64::MAX } else { x.to_bits() };
        let bad = |what: &str, detail: String| fail(format!("accessor:{}:{}", what, label), format!("{} on {} holding {:?}: {}", what, label, s, detail));
        if GetLen::len(v) != n || GetLen::is_empty(v) != (n == 0) {
            return bad("len", format!("len {} is_empty {}", GetLen::len(v), GetLen::is_empty(v)));
        }
        for i in 0..n + 2 {
            match v.get(i) {
                Ok(x) if i < n && dec(x) == want[i] => {},
                Err(_) if i >= n => {},
                other => return bad("get", format!("get({}) = {:?}", i, other.map(dec))),
            }
            let vg = v.vget(i);
            if vg.map(|x| x.to_bits()) != <[Option<f64>]>::get(s, i).cloned().flatten().map(|x: f64| x.to_bits()) {
                return bad("vget", format!("vget({}) = {:?}", i, vg));
            }
        }
        for i in 0..n {
            if dec(unsafe { v.uget(i) }) != want[i] {
                return bad("uget", format!("uget({})", i));
            }
        }
        let fwd: Vec<u64> = v.titer().map(dec).collect();
        let mut rev: Vec<u64> = v.titer().rev().map(dec).collect();
        rev.reverse();
        if fwd != want || rev != want {
            return bad("titer", format!("forward {:?} / reversed-back {:?}", fwd, rev));
        }
        // alternating consumption from both ends
        let mut it = v.titer();
        let (mut front, mut back) = (vec![], vec![]);
        loop {
            match it.next() {
                Some(x) => front.push(dec(x)),
                None => break,
            }
            match it.next_back() {
                Some(x) => back.push(dec(x)),
                None => break,
            }
        }
        back.reverse();
        front.extend(back);
        if front != want {
            return bad("titer-alternating", format!("{:?}", front));
        }
        if let Some(sl) = v.try_as_slice() {
            let got: Vec<u64> = sl.iter().map(|x| dec(*x)).collect();
            if got != want {
                return bad("try_as_slice", format!("contiguous view {:?} is not the logical sequence", sl));
            }
        }
        let c1: Vec<u64> = v.iter_cast::<f64>().map(dec).collect();
        let c2: Vec<u64> = v.opt_iter_cast::<f64>().map(|x| x.map(|y| y.to_bits()).unwrap_or(u64::MAX)).collect();
        let c3: Vec<u64> = v.to_opt_iter().map(|x| x.map(|y| y.to_bits()).unwrap_or(u64::MAX)).collect();
        let c4: Vec<u64> = TIter::map(v, |x| x).map(dec).collect();
        if c1 != want || c2 != want || c3 != want || c4 != want {
            return bad("iter_cast", "iter_cast / opt_iter_cast / to_opt_iter / map".into());
        }
        // the option view
        let o = v.opt();
        let oi: Vec<u64> = o.titer().map(|x| x.map(|y| y.to_bits()).unwrap_or(u64::MAX)).collect();
        if GetLen::len(&o) != n || oi != want {
            return bad("opt-view", format!("{:?}", oi));
        }
        Ok(label)
    }
}

/// slices, read through each slice type's own iterator
macro_rules! slices_of {
    (@opt yes, $v:expr, $s:expr, $label:expr, $a:expr, $b:expr, $want:expr) => {{
        // the option view's slice and checked get (offered when the slice type is iterable)
        let o = $v.opt();
        let os = Vec1View::slice(&o, $a, $b).map_err(|e| Fail { sig: format!("accessor:opt-slice:{}", $label), detail: e.to_string() })?;
        let got: Vec<u64> = os.iter().map(|x| x.map(|y| y.to_bits()).unwrap_or(u64::MAX)).collect();
        if got != $want {
            return fail(format!("accessor:opt-slice:{}", $label), format!("opt().slice({}, {}) = {:?}", $a, $b, os));
        }
        if $a == 0 {
            match Vec1View::get(&o, $b) {
                Ok(x) if $b < $s.len() && x.map(|y| y.to_bits()) == $s[$b].map(|y: f64| y.to_bits()) => {},
                Err(_) if $b >= $s.len() => {},
                _ => return fail(format!("accessor:opt-get:{}", $label), format!("opt().get({})", $b)),
            }
        }
    }};
    (@opt no, $v:expr, $s:expr, $label:expr, $a:expr, $b:expr, $want:expr) => {{}};
    ($opt:ident, $v:expr, $s:expr, $label:expr, |$sl:ident| $read:expr) => {{
        let v = $v;
        let n = $s.len();
        for a in 0..=n {
            for b in a..=n {
                let want: Vec<u64> = bits(&$s[a..b].to_vec());
                for unchecked in [false, true] {
                    let $sl = if unchecked { unsafe { Vec1View::uslice(v, a, b) } } else { Vec1View::slice(v, a, b) };
                    let $sl = match $sl {
                        Ok(x) => x,
                        Err(e) => return fail(format!("accessor:slice:{}", $label), format!("slice({}, {}) failed: {}", a, b, e)),
                    };
                    let got: Vec<f64> = $read;
                    let got: Vec<u64> = got.iter().map(|x| if x.is_nan() { u64::MAX } else { x.to_bits() }).collect();
                    if got != want {
                        return fail(format!("accessor:slice:{}", $label), format!("slice({}, {}) of {:?} on {} = {:?}", a, b, $s, $label, got));
                    }
                }
                slices_of!(@opt $opt, v, $s, $label, a, b, want);
            }
        }
    }};
}

fn check_accessors(c: &AccCase, obs: &mut Obs) -> CheckResult {
    let d: Vec<f64> = materialize(&c.s);
    let label = with_backend(c.bk, &d, -7.0, &mut AccFn { s: &c.s })?;
    match c.bk {
        Backend::Vec | Backend::Array => slices_of!(yes, &d, c.s, "vec", |sl| sl.to_vec()),
        Backend::Deque { rot } => {
            let q = make_deque(&d, rot);
            slices_of!(no, &q, c.s, "vecdeque", |sl| sl.cloned().collect())
        },
        Backend::Nd => {
            let a = Array1::from_vec(d.clone());
            slices_of!(yes, &a, c.s, "ndarray", |sl| sl.to_vec())
        },
        Backend::NdView { step } => {
            let parent = strided_parent(&d, step, -7.0);
            let view = parent.slice(s![..;step]);
            slices_of!(no, &view, c.s, "ndview", |sl| sl.to_vec())
        },
        Backend::NdViewMut => {
            let mut a = Array1::from_vec(d.clone());
            let vm = a.view_mut();
            slices_of!(no, &vm, c.s, "ndviewmut", |sl| sl.to_vec())
        },
        Backend::ArcVec => {
            let a = Arc::new(d.clone());
            slices_of!(yes, &a, c.s, "arc_vec", |sl| sl.to_vec())
        },
        Backend::ArcDeque { rot } => {
            let q = Arc::new(make_deque(&d, rot));
            slices_of!(no, &q, c.s, "arc_vecdeque", |sl| sl.cloned().collect())
        },
        Backend::ArcNd => {
            let a = Arc::new(Array1::from_vec(d.clone()));
            slices_of!(yes, &a, c.s, "arc_ndarray", |sl| sl.to_vec())
        },
    }
    obs.set_nontrivial(c.s.len() >= 3 && !matches!(c.bk, Backend::Vec));
    obs.class(label);
    Ok(())
}

fn acc_small(tier: Tier) -> impl Iterator<Item = AccCase> {
    let max_len = tier.pick(5, 6);
    let mut v = vec![];
    for len in 0..=max_len {
        // every sequence over {null, 1, 2}
        let total = 3usize.pow(len as u32);
        for code in 0..total {
            let mut s = Vec::with_capacity(len);
            let mut c = code;
            for _ in 0..len {
                s.push(match c % 3 {
                    0 => None,
                    1 => Some(1.0),
                    _ => Some(2.0),
                });
                c /= 3;
            }
            let mut bks = vec![Backend::Vec, Backend::Array, Backend::Nd, Backend::NdViewMut, Backend::ArcVec, Backend::ArcNd];
            for step in VIEW_STEPS {
                bks.push(Backend::NdView { step });
            }
            for rot in 0..=len.max(1) {
                bks.push(Backend::Deque { rot });
            }
            bks.push(Backend::ArcDeque { rot: 1 + code % 4 });
            // keep the enumeration affordable: all backends for len <= 4, a rotating subset beyond
            for (k, bk) in bks.into_iter().enumerate() {
                if len <= 4 || (k + code) % 4 == 0 {
                    v.push(AccCase { s: s.clone(), bk });
                }
            }
        }
    }
    v.into_iter()
}

fn acc_random(tier: Tier) -> impl Strategy<Value = AccCase> {
    (raw_series(len_strategy(tier, 20, 60)), backend_strategy()).prop_map(|(rs, bk)| {
        let (s, _) = series_of(&rs, InT::F64);
        AccCase { s, bk }
    })
}

fn main() {
    let mut p = Property::new(
        "C07",
        "part A (accessors): for each container holding a logical sequence: len, is_empty, get(i) for i in 0..len+2, vget, uget, titer forward / reversed / alternating from both ends, slice(a,b) and uslice(a,b) for ALL 0 <= a <= b <= len read through the slice type's own iterator, try_as_slice when offered, iter_cast, opt_iter_cast, to_opt_iter, map, the option view (len, get, titer, slice) must all describe that sequence; EXHAUSTIVE over every sequence over {null, 1, 2} of length 0..=4 x every backend (Vec, array, VecDeque with every head offset, ndarray owned / views with step 1,2,3,-1,-2 / mutable view, Arc-wrapped), a rotating quarter of the backends for length 5 (thorough: ..=6), random beyond. \
         part B (function matrix): reference = Vec input -> Vec output, returned; every other cell (input backend x output container {Vec, VecDeque, Array1} x {returned, caller buffer}) of every rolling entry point (22 single-series null-aware, 9 plain, 10 two-series with the second series in Vec / VecDeque / ndarray view / ndarray), and for the view-based mapping functions (vdiff, vpct_change, vrank, varg_partition, winsorize x3), iterator-based ones fed from titer() (vshift, ffill, bfill, vclip, vabs) and aggregations (counts, moments, extrema, arg-extrema, first/last, quantiles, median, percentile_of, Spearman / Pearson, half_life) must be bit-identical to the reference. \
         Non-trivial = len >= 3 and the cell is not the reference cell class (wrapped VecDeque, strided / reversed view, Arc, non-Vec output or caller buffer); distinct = distinct serialised cases",
    )
    .assume("Polars cells run in the separate c07pl binary (thorough tier) because linking polars takes minutes; cells documented as unsupported (Polars uset, DESIGN 5.7) are not generated")
    .assume("fdiff cannot be instantiated on VecDeque and borrowed ndarray views; rolling2_custom not on borrowed views (API bounds)");
    let ins: &'static [InT] = &[InT::F64, InT::OptF64, InT::I32];
    let outs: &'static [OutT] = &[OutT::F64, OutT::OptF64, OutT::I32];
    let outs_nonull: &'static [OutT] = &[OutT::F64, OutT::OptF64];
    p.add(sub_enum("accessors:small_scope", acc_small, check_accessors));
    p.add(sub("accessors:random", 4000, 60000, acc_random, check_accessors));
    p.add(sub(
        "matrix:rolling_valid",
        30000,
        1000000,
        move |tier| {
            (mat_case(roll_case_of(tier, ins, outs, 30, 120, 1, ALL_CLASSES)), 0usize..22).prop_map(move |(mut m, k)| {
                m.c.p = k as f64;
                if matches!(STATS[k], Stat::Min | Stat::Max) && m.c.tout == OutT::I32 {
                    m.c.tout = outs_nonull[k % 2];
                }
                m
            })
        },
        |m: &MatCase, obs: &mut Obs| matrix_rolling(m, true, obs),
    ));
    let f64_only: &'static [InT] = &[InT::F64];
    let f64_out: &'static [OutT] = &[OutT::F64];
    p.add(canary(sub(
        "matrix:ndarray_out_views",
        12000,
        400000,
        move |tier| {
            (mat_case(roll_case_of(tier, f64_only, f64_out, 30, 120, 1, ALL_CLASSES)), 0usize..22).prop_map(|(mut m, k)| {
                m.c.p = k as f64;
                m
            })
        },
        matrix_nd_out_views,
    )));
    let plain_ins: &'static [InT] = &[InT::F64, InT::I32];
    p.add(sub(
        "matrix:rolling_plain",
        12000,
        400000,
        move |tier| {
            (mat_case(roll_case_of(tier, plain_ins, outs, 30, 120, 1, ALL_CLASSES)), 0usize..9).prop_map(|(mut m, k)| {
                m.c.p = k as f64;
                for v in m.c.x.iter_mut() {
                    if v.is_none() {
                        *v = Some(0.0);
                    }
                }
                m
            })
        },
        |m: &MatCase, obs: &mut Obs| matrix_rolling(m, false, obs),
    ));
    p.add(sub("matrix:rolling_two_series", 12000, 400000, |tier| mat2_case(roll2_case(tier, 30, 120, 1)), matrix_rolling2));
    p.add(sub("matrix:map_agg", 10000, 300000, move |tier| mat_case(roll_case_of(tier, plain_ins, outs, 30, 120, 1, ALL_CLASSES)), matrix_map_agg));
    let _ = VecDeque::<i32>::new();
    main_for(p);
}
