//! C17 — date-time, duration and time-of-day arithmetic obeys its inverse laws.
use proptest::prelude::*;
use serde::{Deserialize, Serialize};
use tevec::prelude::{unit, DateTime, Time, TimeDelta, TimeUnitTrait, Timelike};
use tvh::civil;
use tvh::engine::{fail, main_for, sub, CheckResult, Obs, Property, Tier};

const NS_PER: [i64; 4] = [1_000_000_000, 1_000_000, 1_000, 1];
const UNIT_NAME: [&str; 4] = ["s", "ms", "us", "ns"];
// 1850-01-01 .. 2100-01-01 in seconds (durations reach at most ~41 years, so every result stays
// inside 1677..2262, the range of the nanosecond unit)
const LO_S: i64 = -3_786_825_600;
const HI_S: i64 = 4_102_444_800;

fn dur_from_ns(n: i128) -> chrono::Duration {
    chrono::Duration::seconds(n.div_euclid(1_000_000_000) as i64) + chrono::Duration::nanoseconds(n.rem_euclid(1_000_000_000) as i64)
}

macro_rules! by_unit {
    ($u:expr, $f:ident, $($a:expr),*) => {
        match $u {
            0 => $f::<unit::Second>($($a),*),
            1 => $f::<unit::Millisecond>($($a),*),
            2 => $f::<unit::Microsecond>($($a),*),
            _ => $f::<unit::Nanosecond>($($a),*),
        }
    };
}

/// duration as counts of the eight month-free units
#[derive(Clone, Debug, Serialize, Deserialize)]
struct Dur {
    w: i64,
    d: i64,
    h: i64,
    m: i64,
    s: i64,
    ms: i64,
    us: i64,
    ns: i64,
}

impl Dur {
    fn total_ns(&self) -> i64 {
        (((self.w * 7 + self.d) * 24 + self.h) * 60 + self.m) * 60 * 1_000_000_000 + self.s * 1_000_000_000 + self.ms * 1_000_000 + self.us * 1_000 + self.ns
    }
    fn units_used(&self) -> usize {
        [self.w, self.d, self.h, self.m, self.s, self.ms, self.us, self.ns].iter().filter(|v| **v != 0).count()
    }
    fn to_chrono(&self) -> chrono::Duration {
        chrono::Duration::weeks(self.w)
            + chrono::Duration::days(self.d)
            + chrono::Duration::hours(self.h)
            + chrono::Duration::minutes(self.m)
            + chrono::Duration::seconds(self.s)
            + chrono::Duration::milliseconds(self.ms)
            + chrono::Duration::microseconds(self.us)
            + chrono::Duration::nanoseconds(self.ns)
    }
    /// drop components finer than the unit's resolution
    fn at_resolution(mut self, u: usize) -> Dur {
        if u < 3 {
            self.ns = 0;
        }
        if u < 2 {
            self.us = 0;
        }
        if u < 1 {
            self.ms = 0;
        }
        self
    }
}

fn dur_strategy() -> impl Strategy<Value = Dur> {
    // each component present with probability ~1/2, both signs; |total| <= ~30 years
    let comp = |max: i64| prop_oneof![2 => Just(0i64), 3 => -max..=max];
    (comp(700), comp(5000), comp(100_000), comp(1_000_000), comp(10_000_000), comp(1_000_000), comp(1_000_000), comp(1_000_000)).prop_map(|(w, d, h, m, s, ms, us, ns)| Dur { w, d, h, m, s, ms, us, ns })
}

fn ts_in_unit(u: usize, secs: i64, sub_ns: i64) -> i64 {
    (secs as i128 * 1_000_000_000 + sub_ns as i128).div_euclid(NS_PER[u] as i128) as i64
}

#[derive(Clone, Debug, Serialize, Deserialize)]
struct InvCase {
    u: usize,
    secs: i64,
    sub_ns: i64,
    secs2: i64,
    sub_ns2: i64,
    d: Dur,
}

fn inv_case(_t: Tier) -> impl Strategy<Value = InvCase> {
    (0usize..4, LO_S..HI_S, 0i64..1_000_000_000, LO_S..HI_S, 0i64..1_000_000_000, dur_strategy()).prop_map(|(u, secs, sub_ns, secs2, sub_ns2, d)| InvCase {
        u,
        secs,
        sub_ns,
        secs2,
        sub_ns2,
        d: d.at_resolution(u),
    })
}

fn inv_unit<U: TimeUnitTrait>(c: &InvCase, obs: &mut Obs) -> CheckResult
where
    DateTime<U>: TryInto<chrono::DateTime<chrono::Utc>> + From<chrono::DateTime<chrono::Utc>>,
{
    let ts = ts_in_unit(c.u, c.secs, c.sub_ns);
    let t = DateTime::<U>::new(ts);
    let td = TimeDelta {
        months: 0,
        inner: c.d.to_chrono(),
    };
    let d_units = c.d.total_ns() / NS_PER[c.u];
    let plus = t + td;
    if plus.0 != ts + d_units {
        return fail("add:model", format!("DateTime<{}>({}) + {:?} = {}, exact arithmetic gives {}", UNIT_NAME[c.u], ts, c.d, plus.0, ts + d_units));
    }
    let back = plus - td;
    if back.0 != ts {
        return fail("add-sub-inverse", format!("(t + d) - d = {} for t = {} ({}), d = {:?}", back.0, ts, UNIT_NAME[c.u], c.d));
    }
    let minus = t - td;
    if minus.0 != ts - d_units || (minus + td).0 != ts {
        return fail("sub-add-inverse", format!("(t - d) + d != t for t = {} ({}), d = {:?}", ts, UNIT_NAME[c.u], c.d));
    }
    // difference of two date-times added to the subtrahend gives the minuend
    let ts2 = ts_in_unit(c.u, c.secs2, c.sub_ns2);
    let b = DateTime::<U>::new(ts2);
    let diff = t - b;
    if diff.months != 0 || diff.inner != dur_from_ns((ts as i128 - ts2 as i128) * NS_PER[c.u] as i128) {
        return fail("difference:model", format!("{} - {} ({}) = {:?}", ts, ts2, UNIT_NAME[c.u], diff));
    }
    if (b + diff).0 != ts {
        return fail("difference-inverse", format!("(a - b) + b = {} for a = {}, b = {} ({})", (b + diff).0, ts, ts2, UNIT_NAME[c.u]));
    }
    obs.set_nontrivial(c.secs < 0 || c.d.units_used() >= 3);
    obs.class_if(c.secs < 0, "pre_1970");
    obs.class_if(c.d.units_used() >= 3, "duration_mixing>=3_units");
    obs.class(UNIT_NAME[c.u]);
    Ok(())
}

/// the difference law alone, over (nearly) the whole range of each unit: for the nanosecond unit two
/// instants may be up to 584 years apart, more than an i64 of nanoseconds
#[derive(Clone, Debug, Serialize, Deserialize)]
struct WideCase {
    u: usize,
    a: i64,
    b: i64,
}

fn wide_case(_t: Tier) -> impl Strategy<Value = WideCase> {
    // raw values: ns over the whole i64 (minus NaT), coarser units over years ~1..9999
    let lim = |u: usize| match u {
        3 => i64::MAX,
        _ => 250_000_000_000i64 * (1_000_000_000 / NS_PER[u]),
    };
    (0usize..4, any::<i64>(), any::<i64>(), 0u8..4).prop_map(move |(u, x, y, mode)| {
        let l = lim(u);
        let fold = |v: i64| if l == i64::MAX { v.max(i64::MIN + 1) } else { v % l };
        let (a, b) = match mode {
            // opposite ends of the range
            0 => (l - (x % 1_000_000).abs(), -(l - (y % 1_000_000).abs())),
            1 => (-(l - (x % 1_000_000).abs()), l - (y % 1_000_000).abs()),
            _ => (fold(x), fold(y)),
        };
        WideCase { u, a, b }
    })
}

fn wide_unit<U: TimeUnitTrait>(c: &WideCase, obs: &mut Obs) -> CheckResult
where
    DateTime<U>: TryInto<chrono::DateTime<chrono::Utc>> + From<chrono::DateTime<chrono::Utc>>,
{
    let (a, b) = (DateTime::<U>::new(c.a), DateTime::<U>::new(c.b));
    let diff = a - b;
    let want = dur_from_ns((c.a as i128 - c.b as i128) * NS_PER[c.u] as i128);
    if diff.is_nat() || diff.months != 0 || diff.inner != want {
        return fail("difference:wide:model", format!("DateTime<{}>: {} - {} = {:?}, exact difference is {:?}", UNIT_NAME[c.u], c.a, c.b, diff, want));
    }
    let rev = b - a;
    if rev.is_nat() || rev.inner != -want {
        return fail("difference:wide:antisymmetric", format!("DateTime<{}>: {} - {} = {:?}, expected the negated difference", UNIT_NAME[c.u], c.b, c.a, rev));
    }
    if (b + diff).0 != c.a {
        return fail("difference:wide:inverse", format!("DateTime<{}>: (a - b) + b = {} for a = {}, b = {}", UNIT_NAME[c.u], (b + diff).0, c.a, c.b));
    }
    if (a - diff).0 != c.b {
        return fail("difference:wide:inverse", format!("DateTime<{}>: a - (a - b) = {} for a = {}, b = {}", UNIT_NAME[c.u], (a - diff).0, c.a, c.b));
    }
    let beyond = (c.a as i128 - c.b as i128).abs() * NS_PER[c.u] as i128 > i64::MAX as i128;
    obs.set_nontrivial(beyond || (c.a < 0) != (c.b < 0));
    obs.class_if(beyond, "difference_beyond_i64_ns");
    obs.class(UNIT_NAME[c.u]);
    Ok(())
}

fn check_wide(c: &WideCase, obs: &mut Obs) -> CheckResult {
    by_unit!(c.u, wide_unit, c, obs)
}

fn check_inv(c: &InvCase, obs: &mut Obs) -> CheckResult {
    by_unit!(c.u, inv_unit, c, obs)
}

// ---- TimeDelta group laws

#[derive(Clone, Debug, Serialize, Deserialize)]
struct GroupCase {
    a: (i32, Dur),
    b: (i32, Dur),
    c: (i32, Dur),
    k: i32,
}

fn group_case(_t: Tier) -> impl Strategy<Value = GroupCase> {
    let td = || (-1200i32..=1200, dur_strategy());
    (td(), td(), td(), -50i32..=50).prop_map(|(a, b, c, k)| GroupCase { a, b, c, k })
}

fn mk(x: &(i32, Dur)) -> TimeDelta {
    TimeDelta {
        months: x.0,
        inner: x.1.to_chrono(),
    }
}

fn check_group(g: &GroupCase, obs: &mut Obs) -> CheckResult {
    let (a, b, c) = (mk(&g.a), mk(&g.b), mk(&g.c));
    let zero = TimeDelta {
        months: 0,
        inner: chrono::Duration::zero(),
    };
    // model: component-wise integer arithmetic
    let model = TimeDelta {
        months: g.a.0 + g.b.0,
        inner: dur_from_ns(g.a.1.total_ns() as i128 + g.b.1.total_ns() as i128),
    };
    if a + b != model {
        return fail("add:model", format!("{:?} + {:?} = {:?}", a, b, a + b));
    }
    if (a + b) + c != a + (b + c) {
        return fail("associativity", format!("({:?} + {:?}) + {:?}", a, b, c));
    }
    if a + b != b + a {
        return fail("commutativity", format!("{:?} + {:?}", a, b));
    }
    if a + (-a) != zero {
        return fail("inverse", format!("{:?} + (-a) = {:?}", a, a + (-a)));
    }
    if a + zero != a || a - zero != a {
        return fail("identity", format!("{:?} + 0", a));
    }
    if (a + b) * g.k != a * g.k + b * g.k {
        return fail("distributivity", format!("({:?} + {:?}) * {}", a, b, g.k));
    }
    if -(a + b) != (-a) + (-b) {
        return fail("negation-distributes", format!("-({:?} + {:?})", a, b));
    }
    if a - b != a + (-b) {
        return fail("sub-is-add-neg", format!("{:?} - {:?}", a, b));
    }
    if a * g.k
        != (TimeDelta {
            months: g.a.0 * g.k,
            inner: dur_from_ns(g.a.1.total_ns() as i128 * g.k as i128),
        })
    {
        return fail("mul:model", format!("{:?} * {}", a, g.k));
    }
    obs.set_nontrivial(g.a.1.units_used() >= 3 && g.a.0 != 0);
    Ok(())
}

// ---- calendar months

#[derive(Clone, Debug, Serialize, Deserialize)]
struct MonthCase {
    u: usize,
    y: i64,
    mo: u32,
    day_sel: u8,
    sod: i64,
    sub_ns: i64,
    k: i32,
    extra: Dur,
}

fn month_case(_t: Tier) -> impl Strategy<Value = MonthCase> {
    (0usize..4, 1800i64..=2100, 1u32..=12, any::<u8>(), 0i64..86400, 0i64..1_000_000_000, prop_oneof![3 => -1200i32..=1200, 1 => -14i32..=14], dur_strategy()).prop_map(|(u, y, mo, day_sel, sod, sub_ns, k, extra)| MonthCase {
        u,
        y,
        mo,
        day_sel,
        sod,
        sub_ns,
        k,
        extra: extra.at_resolution(u),
    })
}

fn month_unit<U: TimeUnitTrait>(c: &MonthCase, obs: &mut Obs) -> CheckResult
where
    DateTime<U>: TryInto<chrono::DateTime<chrono::Utc>> + From<chrono::DateTime<chrono::Utc>>,
{
    let dim = civil::days_in_month(c.y, c.mo);
    // bias toward the end of the month
    let day = match c.day_sel % 4 {
        0 => dim,
        1 => dim.saturating_sub(1).max(1),
        _ => 1 + (c.day_sel as u32 / 4) % dim,
    };
    let secs = civil::days_from_civil(c.y, c.mo, day) * 86400 + c.sod;
    let ts = ts_in_unit(c.u, secs, c.sub_ns);
    let sub_units = ts - secs * (1_000_000_000 / NS_PER[c.u]);
    let t = DateTime::<U>::new(ts);
    for sign in [1i64, -1] {
        let k = c.k as i64 * sign;
        let (ny, nm, nd) = civil::add_months(c.y, c.mo, day, k);
        if !(1700..=2200).contains(&ny) {
            continue;
        }
        let want = (civil::days_from_civil(ny, nm, nd) * 86400 + c.sod) * (1_000_000_000 / NS_PER[c.u]) + sub_units;
        let td = TimeDelta {
            months: c.k,
            inner: chrono::Duration::zero(),
        };
        let got = if sign == 1 { t + td } else { t - td };
        if got.0 != want {
            return fail(
                format!("months:{}{}", if sign == 1 { "add" } else { "sub" }, if day > nd { ":clamped" } else { "" }),
                format!("{}-{:02}-{:02} {} {} months ({}) = {}, calendar arithmetic gives {} ({}-{:02}-{:02})", c.y, c.mo, day, if sign == 1 { "+" } else { "-" }, c.k, UNIT_NAME[c.u], got.0, want, ny, nm, nd),
            );
        }
        // months together with a month-free part: months first, then the exact duration
        let td2 = TimeDelta {
            months: c.k,
            inner: c.extra.to_chrono(),
        };
        // the combined result must stay inside 1700..2200 as well (domain, DESIGN 5.8)
        let want2_wide = if sign == 1 { want as i128 + (c.extra.total_ns() / NS_PER[c.u]) as i128 } else { want as i128 - (c.extra.total_ns() / NS_PER[c.u]) as i128 };
        let lim = |secs: i64| secs as i128 * (1_000_000_000 / NS_PER[c.u]) as i128;
        if want2_wide < lim(-8_520_336_000) || want2_wide > lim(7_258_118_400) {
            continue;
        }
        let want2 = want2_wide as i64;
        let got2 = if sign == 1 { t + td2 } else { t - td2 };
        if got2.0 != want2 {
            return fail("months+duration", format!("t {} ({} months, {:?}) = {}, expected {}", if sign == 1 { "+" } else { "-" }, c.k, c.extra, got2.0, want2));
        }
        obs.class_if(day > nd, "end_of_month_clamped");
    }
    obs.set_nontrivial(day == dim && c.k != 0);
    obs.class_if(c.y < 1970, "pre_1970");
    Ok(())
}

fn check_month(c: &MonthCase, obs: &mut Obs) -> CheckResult {
    by_unit!(c.u, month_unit, c, obs)
}

// ---- time of day

#[derive(Clone, Debug, Serialize, Deserialize)]
struct TodCase {
    h: i64,
    m: i64,
    s: i64,
    sub_ns: i64,
    d: Dur,
}

fn tod_case(_t: Tier) -> impl Strategy<Value = TodCase> {
    // the ends of the day (first / last second, with and without a sub-second part) are drawn explicitly
    let hms = prop_oneof![6 => (0i64..24, 0i64..60, 0i64..60), 1 => Just((23i64, 59i64, 59i64)), 1 => Just((0i64, 0i64, 0i64)), 1 => (Just(23i64), Just(59i64), 0i64..60), 1 => (Just(0i64), Just(0i64), 0i64..60)];
    let sub = prop_oneof![5 => 0i64..1_000_000_000, 1 => Just(0i64), 1 => Just(999_999_999i64), 1 => Just(1i64)];
    (hms, sub, dur_strategy()).prop_map(|((h, m, s), sub_ns, d)| TodCase { h, m, s, sub_ns, d })
}

fn check_tod(c: &TodCase, obs: &mut Obs) -> CheckResult {
    let base_ns = (c.h * 3600 + c.m * 60 + c.s) * 1_000_000_000;
    let parts = |t: Time| (t.hour() as i64, t.minute() as i64, t.second() as i64, t.nanosecond() as i64);
    let cases: [(&str, Time, i64); 6] = [
        ("from_hms", Time::from_hms(c.h, c.m, c.s), 0),
        ("from_hms_milli", Time::from_hms_milli(c.h, c.m, c.s, c.sub_ns / 1_000_000), c.sub_ns / 1_000_000 * 1_000_000),
        ("from_hms_micro", Time::from_hms_micro(c.h, c.m, c.s, c.sub_ns / 1000), c.sub_ns / 1000 * 1000),
        ("from_hms_nano", Time::from_hms_nano(c.h, c.m, c.s, c.sub_ns), c.sub_ns),
        ("from_num_seconds_from_midnight", Time::from_num_seconds_from_midnight(c.h * 3600 + c.m * 60 + c.s, c.sub_ns), c.sub_ns),
        ("from_i64", Time::from_i64(base_ns + c.sub_ns), c.sub_ns),
    ];
    for (name, t, sub) in cases {
        if t.0 != base_ns + sub {
            return fail(format!("{}:value", name), format!("{}({},{},{},..) = {} ns, expected {}", name, c.h, c.m, c.s, t.0, base_ns + sub));
        }
        if parts(t) != (c.h, c.m, c.s, sub) {
            return fail(format!("{}:getters", name), format!("{}({},{},{},{}) reports {:?}", name, c.h, c.m, c.s, sub, parts(t)));
        }
        let cr = match t.as_cr() {
            Some(cr) => cr,
            None => return fail(format!("{}:as_cr", name), "as_cr is None for a valid time of day"),
        };
        if Time::from_cr(&cr) != t {
            return fail(format!("{}:cr-roundtrip", name), format!("from_cr(as_cr({:?})) = {:?}", t, Time::from_cr(&cr)));
        }
    }
    let t = Time::from_i64(base_ns + c.sub_ns);
    let td = TimeDelta {
        months: 0,
        inner: c.d.to_chrono(),
    };
    if (t + td).0 != t.0 + c.d.total_ns() || (t - td).0 != t.0 - c.d.total_ns() {
        return fail("time+-duration", format!("{:?} +- {:?}", t, c.d));
    }
    if ((t + td) - td) != t {
        return fail("time-inverse", format!("({:?} + d) - d", t));
    }
    obs.set_nontrivial(c.sub_ns % 1000 != 0 && c.d.units_used() >= 3);
    Ok(())
}

// ---- duration_trunc

#[derive(Clone, Debug, Serialize, Deserialize)]
struct TruncCase {
    u: usize,
    secs: i64,
    sub_ns: i64,
    /// month-free truncation unit: count x base
    count: i64,
    base: usize,
    months: i32,
}

const BASES_NS: [i64; 7] = [1, 1_000, 1_000_000, 1_000_000_000, 60_000_000_000, 3_600_000_000_000, 86_400_000_000_000];

fn trunc_case(_t: Tier) -> impl Strategy<Value = TruncCase> {
    (0usize..4, LO_S..HI_S, 0i64..1_000_000_000, 1i64..=90, 0usize..7, prop_oneof![Just(1i32), Just(2), Just(3), Just(4), Just(6), Just(12)]).prop_map(|(u, secs, sub_ns, count, base, months)| TruncCase {
        u,
        secs,
        sub_ns,
        count,
        base,
        months,
    })
}

fn trunc_unit<U: TimeUnitTrait>(c: &TruncCase, obs: &mut Obs) -> CheckResult
where
    DateTime<U>: TryInto<chrono::DateTime<chrono::Utc>> + From<chrono::DateTime<chrono::Utc>>,
{
    let ts = ts_in_unit(c.u, c.secs, c.sub_ns);
    let t = DateTime::<U>::new(ts);
    let ns = ts as i128 * NS_PER[c.u] as i128;
    // month-free
    let d_ns = BASES_NS[c.base] * c.count;
    let td = TimeDelta {
        months: 0,
        inner: chrono::Duration::nanoseconds(d_ns),
    };
    let want = (ns.div_euclid(d_ns as i128) * d_ns as i128).div_euclid(NS_PER[c.u] as i128) as i64;
    let got = t.duration_trunc(td);
    if got.0 != want {
        return fail(
            format!("duration_trunc:month-free:{}", if c.secs < 0 { "pre-1970" } else { "post-1970" }),
            format!("DateTime<{}>({}).duration_trunc({} ns) = {}, greatest multiple not after it is {}", UNIT_NAME[c.u], ts, d_ns, got.0, want),
        );
    }
    // whole months dividing 12
    let (y, mo, _d, _, _, _) = civil::fields_from_secs(ns.div_euclid(1_000_000_000) as i64);
    let m0 = (mo - 1) as i32;
    let p0 = (m0 / c.months) * c.months;
    let want_m = civil::days_from_civil(y, p0 as u32 + 1, 1) * 86400 * (1_000_000_000 / NS_PER[c.u]);
    let tdm = TimeDelta {
        months: c.months,
        inner: chrono::Duration::zero(),
    };
    let got_m = t.duration_trunc(tdm);
    if got_m.0 != want_m {
        return fail(
            format!("duration_trunc:months:{}", c.months),
            format!("DateTime<{}>({}) [{}-{:02}] .duration_trunc({} months) = {}, first instant of the period is {} ({}-{:02}-01)", UNIT_NAME[c.u], ts, y, mo, c.months, got_m.0, want_m, y, p0 + 1),
        );
    }
    obs.set_nontrivial(want != ts && (c.secs < 0 || c.months > 1));
    obs.class_if(c.secs < 0, "pre_1970");
    obs.class_if(want == ts, "already_aligned");
    Ok(())
}

fn check_trunc(c: &TruncCase, obs: &mut Obs) -> CheckResult {
    by_unit!(c.u, trunc_unit, c, obs)
}

fn main() {
    let mut p = Property::new(
        "C17",
        "cases: (unit, instant in 1700..2200 with sub-second part, second instant, duration built from signed counts of w/d/h/m/s/ms/us/ns, each present with probability ~0.6, truncated to the unit's resolution): t + d equals exact integer arithmetic, (t + d) - d == t, (t - d) + d == t, (a - b) + b == a; TimeDelta triples with month counts -1200..=1200 and k in -50..=50: component model, associativity, commutativity, inverse, identity, distributivity, negation; (date biased to month ends, month count): t +- m months == independent civil arithmetic with end-of-month clamping, months combined with a month-free part; time of day from every constructor: components reported by the Timelike getters, chrono round trip, +- duration exact; duration_trunc: month-free d = count x {ns,us,ms,s,m,h,d} vs floor-to-multiple (also pre-1970), m in {1,2,3,4,6,12} months vs first instant of the calendar period. \
         Non-trivial = pre-1970 instant or duration mixing >= 3 units (inverse laws); end-of-month start day with m != 0; sub-microsecond part with a >= 3-unit duration; truncation of an instant that is not already aligned (pre-1970 or multi-month); distinct = distinct serialised cases",
    )
    .assume("operands stay within 1700..2200 so that every unit and chrono can represent them; durations are multiples of the unit's resolution (DESIGN 5.8)");
    p.add(sub("datetime_duration_inverse", 30000, 1000000, inv_case, check_inv));
    p.add(sub("datetime_difference_wide_range", 20000, 600000, wide_case, check_wide));
    p.add(sub("timedelta_group_laws", 20000, 600000, group_case, check_group));
    p.add(sub("calendar_months", 30000, 1000000, month_case, check_month));
    p.add(sub("time_of_day", 20000, 600000, tod_case, check_tod));
    p.add(sub("duration_trunc", 30000, 1000000, trunc_case, check_trunc));
    main_for(p);
}
