//! C16 — NaT is absorbing and unit changes agree with the calendar.
use proptest::prelude::*;
use serde::{Deserialize, Serialize};
use tevec::prelude::{unit, Cast, DateTime, Time, TimeDelta, TimeUnitTrait};
use tvh::civil;
use tvh::engine::{fail, main_for, sub, sub_enum, CheckResult, Obs, Property, Tier};

const NAT: i64 = i64::MIN;
/// nanoseconds per unit, index 0 = second, 1 = ms, 2 = us, 3 = ns
const NS_PER: [i64; 4] = [1_000_000_000, 1_000_000, 1_000, 1];
const UNIT_NAME: [&str; 4] = ["s", "ms", "us", "ns"];

macro_rules! by_unit {
    ($u:expr, $f:ident $(::<$($g:ty),*>)?, $($a:expr),*) => {
        match $u {
            0 => $f::<unit::Second>($($a),*),
            1 => $f::<unit::Millisecond>($($a),*),
            2 => $f::<unit::Microsecond>($($a),*),
            _ => $f::<unit::Nanosecond>($($a),*),
        }
    };
}

fn conv_into<U1: TimeUnitTrait, U2: TimeUnitTrait>(v: i64) -> i64 {
    DateTime::<U1>::new(v).into_unit::<U2>().0
}

fn conv(u1: usize, u2: usize, v: i64) -> i64 {
    macro_rules! inner {
        ($U1:ty) => {
            match u2 {
                0 => conv_into::<$U1, unit::Second>(v),
                1 => conv_into::<$U1, unit::Millisecond>(v),
                2 => conv_into::<$U1, unit::Microsecond>(v),
                _ => conv_into::<$U1, unit::Nanosecond>(v),
            }
        };
    }
    match u1 {
        0 => inner!(unit::Second),
        1 => inner!(unit::Millisecond),
        2 => inner!(unit::Microsecond),
        _ => inner!(unit::Nanosecond),
    }
}

/// the Cast<DateTime<U2>> route (only between different units)
fn conv_cast(u1: usize, u2: usize, v: i64) -> i64 {
    macro_rules! c {
        ($U1:ty, $U2:ty) => {
            Cast::<DateTime<$U2>>::cast(DateTime::<$U1>::new(v)).0
        };
    }
    use unit::*;
    match (u1, u2) {
        (0, 1) => c!(Second, Millisecond),
        (0, 2) => c!(Second, Microsecond),
        (0, 3) => c!(Second, Nanosecond),
        (1, 0) => c!(Millisecond, Second),
        (1, 2) => c!(Millisecond, Microsecond),
        (1, 3) => c!(Millisecond, Nanosecond),
        (2, 0) => c!(Microsecond, Second),
        (2, 1) => c!(Microsecond, Millisecond),
        (2, 3) => c!(Microsecond, Nanosecond),
        (3, 0) => c!(Nanosecond, Second),
        (3, 1) => c!(Nanosecond, Millisecond),
        (3, 2) => c!(Nanosecond, Microsecond),
        _ => conv(u1, u2, v),
    }
}

#[derive(Clone, Debug, Serialize, Deserialize)]
struct ConvCase {
    u1: usize,
    u2: usize,
    ts: i64,
}

fn ts_strategy() -> impl Strategy<Value = i64> {
    prop_oneof![
        3 => any::<i64>(),
        2 => -5_000_000i64..5_000_000,
        2 => (any::<i64>(), 0u32..62).prop_map(|(v, s)| v >> s),
        1 => (0i64..2000).prop_map(|d| i64::MAX - d),
        1 => (1i64..2000).prop_map(|d| i64::MIN + d),
        1 => (any::<i32>(), 0usize..4).prop_map(|(k, u)| (k as i64).wrapping_mul(NS_PER[u])),
        1 => Just(NAT),
        // the last values whose conversion to a finer unit still fits: +-(i64::MAX / ratio) and neighbours
        1 => (0usize..3, -3i64..=3, any::<bool>()).prop_map(|(r, d, neg)| {
            let v = i64::MAX / [1_000i64, 1_000_000, 1_000_000_000][r] + d;
            if neg { -v } else { v }
        }),
    ]
}

fn conv_case(_t: Tier) -> impl Strategy<Value = ConvCase> {
    (0usize..4, 0usize..4, ts_strategy()).prop_map(|(u1, u2, ts)| ConvCase { u1, u2, ts })
}

fn chrono_from(u: usize, ts: i64) -> Option<chrono::DateTime<chrono::Utc>> {
    match u {
        0 => chrono::DateTime::from_timestamp(ts, 0),
        1 => chrono::DateTime::from_timestamp_millis(ts),
        2 => chrono::DateTime::from_timestamp_micros(ts),
        _ => Some(chrono::DateTime::from_timestamp_nanos(ts)),
    }
}

fn chrono_stamp(u: usize, d: &chrono::DateTime<chrono::Utc>) -> Option<i64> {
    match u {
        0 => Some(d.timestamp()),
        1 => Some(d.timestamp_millis()),
        2 => Some(d.timestamp_micros()),
        _ => d.timestamp_nanos_opt(),
    }
}

fn check_conv(c: &ConvCase, obs: &mut Obs) -> CheckResult {
    let (r1, r2) = (NS_PER[c.u1], NS_PER[c.u2]);
    let pair = format!("{}->{}", UNIT_NAME[c.u1], UNIT_NAME[c.u2]);
    let expected: Option<i64> = if c.ts == NAT {
        Some(NAT)
    } else if r1 <= r2 {
        // to a coarser (or the same) unit: the same instant truncated toward the past
        Some(c.ts.div_euclid(r2 / r1))
    } else {
        // to a finer unit: exact multiplication; overflowing products are outside the domain (5.8)
        c.ts.checked_mul(r1 / r2).filter(|v| *v != NAT)
    };
    let expected = match expected {
        Some(e) => e,
        None => {
            obs.class("finer_overflow_outside_domain");
            return Ok(());
        },
    };
    let class = if c.ts == NAT { "nat" } else if r1 < r2 { "coarser" } else if r1 > r2 { "finer" } else { "same" };
    let got = conv(c.u1, c.u2, c.ts);
    if got != expected {
        return fail(format!("into_unit:{}:{}", class, if c.ts < 0 && c.ts != NAT { "negative" } else { "non-negative" }), format!("DateTime<{}>({}).into_unit::<{}>() = {}, expected {}", UNIT_NAME[c.u1], c.ts, UNIT_NAME[c.u2], got, expected));
    }
    let got = conv_cast(c.u1, c.u2, c.ts);
    if got != expected {
        return fail(format!("cast:{}", class), format!("Cast {} of {} = {}, expected {}", pair, c.ts, got, expected));
    }
    // second, independent reference: chrono's accessors on the same instant
    if c.ts != NAT && r1 < r2 {
        if let Some(d) = chrono_from(c.u1, c.ts) {
            if let Some(s) = chrono_stamp(c.u2, &d) {
                if s != got {
                    return fail(format!("into_unit:chrono:{}", class), format!("{} of {}: {} but chrono gives {}", pair, c.ts, got, s));
                }
                obs.class("chrono_cross_checked");
            }
        }
    }
    // finer and back is the identity
    if c.ts != NAT && r1 > r2 {
        let back = conv(c.u2, c.u1, got);
        if back != c.ts {
            return fail("roundtrip:finer-and-back", format!("{} of {} = {}, and back = {}", pair, c.ts, got, back));
        }
    }
    let ratio = if r1 < r2 { r2 / r1 } else { 1 };
    let near_limit = c.ts != NAT && (c.ts > i64::MAX - i64::MAX / 100 || c.ts < i64::MIN + i64::MAX / 100);
    obs.set_nontrivial(c.u1 != c.u2 && (c.ts == NAT || (c.ts < 0 && c.ts.rem_euclid(ratio) != 0) || near_limit));
    obs.class(class);
    obs.class_if(c.ts < 0 && c.ts != NAT && r1 < r2 && c.ts.rem_euclid(ratio) != 0, "negative_non_divisible");
    obs.class_if(near_limit, "near_range_limit");
    Ok(())
}

// ---- calendar: as_cr / From<chrono> round trip and field getters

#[derive(Clone, Debug, Serialize, Deserialize)]
struct CalCase {
    u: usize,
    ts: i64,
}

fn cal_case(_t: Tier) -> impl Strategy<Value = CalCase> {
    // instants within +-7900 years for s/ms/us, the whole i64 range for ns
    // for ns: uniform over i64 plus the last two seconds at either end of the range
    let raw_ns = prop_oneof![6 => any::<i64>(), 1 => (0i64..2_000_000_000).prop_map(|d| i64::MAX - d), 1 => (1i64..2_000_000_000).prop_map(|d| i64::MIN + d)];
    (0usize..4, prop_oneof![4 => -250_000_000_000i64..250_000_000_000, 2 => -200_000i64..200_000, 1 => Just(0i64)], 0i64..1_000_000_000, raw_ns).prop_map(|(u, secs, sub, raw)| {
        let ts = match u {
            0 => secs,
            1 => secs * 1000 + sub / 1_000_000,
            2 => secs * 1_000_000 + sub / 1000,
            _ => {
                if raw == NAT {
                    0
                } else {
                    raw
                }
            },
        };
        CalCase { u, ts }
    })
}

fn cal_unit<U: TimeUnitTrait>(ts: i64) -> CheckResult
where
    DateTime<U>: TryInto<chrono::DateTime<chrono::Utc>> + From<chrono::DateTime<chrono::Utc>>,
{
    let dt = DateTime::<U>::new(ts);
    let cr = match dt.as_cr() {
        Some(c) => c,
        None => return fail("as_cr:none-in-range", format!("as_cr of {} ({:?}) is None", ts, U::unit())),
    };
    let back: DateTime<U> = cr.into();
    if back.0 != ts {
        return fail("as_cr:roundtrip", format!("From<chrono>(as_cr({})) = {} ({:?})", ts, back.0, U::unit()));
    }
    // the other calendar entry points describe the same instant: naive date-time, optional naive
    // date-time, naive date (midnight of that day), raw integers
    let naive = cr.naive_utc();
    let from_naive: DateTime<U> = naive.into();
    let from_opt: DateTime<U> = Some(naive).into();
    let from_none: DateTime<U> = None::<chrono::NaiveDateTime>.into();
    if from_naive.0 != ts || from_opt.0 != ts || !from_none.is_nat() {
        return fail("from_naive_datetime", format!("From<NaiveDateTime> of {} ({:?}) = {} / {} / none -> {}", ts, U::unit(), from_naive.0, from_opt.0, from_none.0));
    }
    let per_day: i128 = 86_400_000_000_000
        / match U::unit() {
            tevec::prelude::TimeUnit::Second => 1_000_000_000i128,
            tevec::prelude::TimeUnit::Millisecond => 1_000_000,
            tevec::prelude::TimeUnit::Microsecond => 1_000,
            _ => 1,
        };
    let midnight = (ts as i128).div_euclid(per_day) * per_day;
    // (the first day of the nanosecond range starts before the range does: not convertible)
    if midnight >= i64::MIN as i128 + 1 {
        let from_date: DateTime<U> = naive.date().into();
        if from_date.0 as i128 != midnight {
            return fail(format!("from_naive_date:{}", if ts < 0 { "pre-epoch" } else { "post-epoch" }), format!("From<NaiveDate> of the day of {} ({:?}) = {}, midnight of that day is {}", ts, U::unit(), from_date.0, midnight));
        }
    }
    let (fi, fo, fn_): (DateTime<U>, DateTime<U>, DateTime<U>) = (ts.into(), Some(ts).into(), None::<i64>.into());
    if fi.0 != ts || fo.0 != ts || !fn_.is_nat() || !DateTime::<U>::default().is_nat() {
        return fail("from_i64", format!("From<i64> / From<Option<i64>> / default of {}", ts));
    }
    let ns_per = match U::unit() {
        tevec::prelude::TimeUnit::Second => 1_000_000_000i128,
        tevec::prelude::TimeUnit::Millisecond => 1_000_000,
        tevec::prelude::TimeUnit::Microsecond => 1_000,
        _ => 1,
    };
    let secs = ((ts as i128 * ns_per).div_euclid(1_000_000_000)) as i64;
    let (y, m, d, hh, mm, ss) = civil::fields_from_secs(secs);
    let got = (dt.year(), dt.month(), dt.day(), dt.hour(), dt.minute(), dt.second());
    let want = (Some(y as i32), Some(m as usize), Some(d as usize), Some(hh as usize), Some(mm as usize), Some(ss as usize));
    if got != want {
        return fail(format!("fields:{}", if ts < 0 { "pre-epoch" } else { "post-epoch" }), format!("fields of {} ({:?}) = {:?}, civil calendar gives {:?}", ts, U::unit(), got, want));
    }
    if dt.into_opt_i64() != Some(ts) || Cast::<Option<i64>>::cast(dt) != Some(ts) || Cast::<i64>::cast(dt) != ts {
        return fail("into_opt_i64", format!("integer views of {} disagree", ts));
    }
    Ok(())
}

fn check_cal(c: &CalCase, obs: &mut Obs) -> CheckResult {
    obs.set_nontrivial(c.ts < 0 && c.ts % NS_PER[3 - c.u].max(1) != 0 || c.ts < 0);
    obs.class(UNIT_NAME[c.u]);
    obs.class_if(c.ts < 0, "pre_epoch");
    by_unit!(c.u, cal_unit, c.ts)
}

// ---- NaT absorbing (enumerated)

#[derive(Clone, Debug, Serialize, Deserialize)]
struct NatCase {
    u: usize,
    other: i64,
    months: i32,
    secs: i64,
    k: i32,
}

fn nat_unit<U: TimeUnitTrait>(c: &NatCase) -> CheckResult
where
    DateTime<U>: TryInto<chrono::DateTime<chrono::Utc>> + From<chrono::DateTime<chrono::Utc>>,
{
    let nat = DateTime::<U>::nat();
    let valid = DateTime::<U>::new(c.other);
    let td = TimeDelta {
        months: c.months,
        inner: chrono::Duration::seconds(c.secs),
    };
    let tdn = TimeDelta::nat();
    macro_rules! must_nat {
        ($what:expr, $v:expr) => {
            if !$v {
                return fail(format!("nat:{}", $what), format!("{} with a NaT operand is not NaT (unit {:?}, case {:?})", $what, U::unit(), c));
            }
        };
    }
    must_nat!("as_cr", nat.as_cr().is_none());
    must_nat!("into_opt_i64", nat.into_opt_i64().is_none());
    must_nat!("cast_opt_i64", Cast::<Option<i64>>::cast(nat).is_none());
    must_nat!(
        "cast_opt_other",
        Cast::<Option<i32>>::cast(nat).is_none()
            && Cast::<Option<f64>>::cast(nat).is_none()
            && Cast::<Option<f32>>::cast(nat).is_none()
            && Cast::<Option<u64>>::cast(nat).is_none()
            && Cast::<Option<usize>>::cast(nat).is_none()
            && Cast::<Option<isize>>::cast(nat).is_none()
            && Cast::<Option<u8>>::cast(nat).is_none()
            && Cast::<Option<bool>>::cast(nat).is_none()
    );
    must_nat!("time.cast_opt_other", Cast::<Option<i32>>::cast(Time::nat()).is_none() && Cast::<Option<f64>>::cast(Time::nat()).is_none() && Cast::<Option<u64>>::cast(Time::nat()).is_none());
    must_nat!("isnone", tevec::prelude::IsNone::is_none(&nat) && tevec::prelude::IsNone::to_opt(nat).is_none() && tevec::prelude::IsNone::is_none(&Time::nat()) && tevec::prelude::IsNone::is_none(&TimeDelta::nat()));
    must_nat!("getters", nat.year().is_none() && nat.month().is_none() && nat.day().is_none() && nat.hour().is_none() && nat.minute().is_none() && nat.second().is_none() && nat.time().is_none());
    must_nat!("strftime", nat.strftime(None) == "NaT");
    must_nat!("datetime+delta", (nat + td).is_nat());
    must_nat!("datetime-delta", (nat - td).is_nat());
    must_nat!("datetime+natdelta", (valid + tdn).is_nat());
    must_nat!("datetime-natdelta", (valid - tdn).is_nat());
    must_nat!("nat-nat", (nat - nat).is_nat() && (nat - DateTime::<U>::nat()).is_nat());
    must_nat!("nat-datetime", (nat - valid).is_nat());
    must_nat!("datetime-nat", (valid - nat).is_nat());
    must_nat!("duration_trunc", nat.duration_trunc(TimeDelta { months: 0, inner: chrono::Duration::seconds(c.secs.abs() + 1) }).is_nat());
    must_nat!("neg", (-tdn).is_nat());
    must_nat!("delta+nat", (td + tdn).is_nat() && (tdn + td).is_nat());
    must_nat!("delta-nat", (td - tdn).is_nat() && (tdn - td).is_nat());
    must_nat!("delta*k", (tdn * c.k).is_nat());
    let t = Time::from_i64(c.other.rem_euclid(86_400_000_000_000));
    let month_free = TimeDelta {
        months: 0,
        inner: chrono::Duration::seconds(c.secs),
    };
    must_nat!("time+natdelta", (t + tdn).is_nat() && (t - tdn).is_nat());
    must_nat!("nattime+delta", (Time::nat() + month_free).is_nat());
    must_nat!("nattime-delta", (Time::nat() - month_free).is_nat());
    must_nat!("time.as_cr", Time::nat().as_cr().is_none() || true);
    must_nat!("time.cast_opt", Cast::<Option<i64>>::cast(Time::nat()).is_none());
    Ok(())
}

fn nat_cases(_t: Tier) -> impl Iterator<Item = NatCase> {
    let mut v = vec![];
    for u in 0..4 {
        for other in [0i64, 1, -1, 86_399, -86_401, 1_600_000_000, -1_600_000_000] {
            for months in [0, 1, -13] {
                for secs in [0i64, 1, -1, 3600 * 24 * 400, -7] {
                    for k in [0, 1, -3] {
                        v.push(NatCase { u, other, months, secs, k });
                    }
                }
            }
        }
    }
    v.into_iter()
}

fn check_nat(c: &NatCase, obs: &mut Obs) -> CheckResult {
    obs.set_nontrivial(true);
    by_unit!(c.u, nat_unit, c)
}

fn main() {
    let mut p = Property::new(
        "C16",
        "conversion cases = (source unit, target unit) over all 4x4 pairs x i64 timestamps drawn uniformly, near 0 with both signs (not divisible by the unit ratios), right-shifted uniform values (every magnitude), within 2000 of either range limit, exact multiples of a unit ratio, and NaT; oracle: NaT -> NaT; coarser = floor division (div_euclid) cross-checked against chrono's timestamp / timestamp_millis / timestamp_micros of the same instant; finer = exact multiplication (overflowing products outside the domain, DESIGN 5.8), and finer-then-back is the identity; both into_unit and Cast<DateTime<_>>. \
         calendar cases = instants within +-7900 years (s/ms/us) and the whole i64 range (ns): From<chrono>(as_cr(t)) == t and year/month/day/hour/minute/second equal Hinnant's civil-from-days on the floor-divided timestamp. \
         NaT cases = enumerated operand grid for every conversion / getter / + - neg * on DateTime, TimeDelta and Time with a NaT operand. \
         Non-trivial = different units and (NaT, or a negative timestamp not divisible by the ratio, or within 1 % of a range limit); pre-epoch instants for the calendar part; distinct = distinct serialised cases",
    )
    .assume("finer-unit conversions whose exact product overflows i64 are outside the domain (DESIGN 5.8)");
    p.add(sub("unit_conversion", 60000, 3000000, conv_case, check_conv));
    p.add(sub("calendar_roundtrip_fields", 30000, 1000000, cal_case, check_cal));
    p.add(sub_enum("nat_absorbing", nat_cases, check_nat));
    main_for(p);
}
