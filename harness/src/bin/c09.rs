//! C09 — trusted-length iterators yield exactly as many items as they announce.
use proptest::prelude::*;
use serde::{Deserialize, Serialize};
use tevec::export::ndarray::Array1;
use tevec::prelude::{Cast, CollectTrustedToVec, GetLen, IsNone, MapBasic, MapValidBasic, MapValidFinal, MapValidVec, Number, TIter, TResult, ToTrustIter, TrustedLen, Vec1, Vec1Collect, Vec1Create, Vec1TryCollect, Vec1View, WinsorizeMethod, Zero};
use tvh::backends::{with_backend, Backend, ViewFn};
use tvh::conv::{materialize, OutElem};
use tvh::engine::{fail, main_for, sub, CheckResult, Fail, Obs, Property, Tier};
use tvh::gen::{backend_strategy, idx, len_strategy, raw_series, series_of, InT, Series};
use tvh::fuzzable::{check_pipeline, collectors, hint_law_bi, hint_law_fwd, hint_law_upper, PCase, POp};

// NOTE: this file imports the tevec prelude; `Iterator::` methods that the prelude shadows
// (sum, max, min, any, all, first, last, count) are always called with explicit paths here.


// ---------------------------------------------------------------------------------------------
// single adaptors with parameters around the critical sizes

#[derive(Clone, Debug, Serialize, Deserialize)]
struct ACase {
    x: Series,
    int: bool,
    n: i32,
    fill: Option<f64>,
    k: usize,
    w: usize,
    flags: u8,
    pops: usize,
    script: Vec<bool>,
    bk: Backend,
}

fn lag_of(len: usize, mode: u8, sel: u16) -> i32 {
    match mode % 16 {
        0 => i32::MIN,
        1 => i32::MAX,
        2 => 0,
        3 => len as i32,
        4 => -(len as i32),
        5 => len as i32 + 1,
        6 => -(len as i32) - 1,
        _ => idx(sel, 2 * len + 7) as i32 - (len as i32 + 3),
    }
}

fn a_case(tier: Tier) -> impl Strategy<Value = ACase> {
    (
        raw_series(len_strategy(tier, 16, 64)),
        any::<bool>(),
        (any::<u8>(), any::<u16>()),
        any::<u8>(),
        (any::<u16>(), any::<u16>()),
        any::<u8>(),
        proptest::collection::vec(any::<bool>(), 0..6),
        backend_strategy(),
    )
        .prop_map(|(rs, int, (lm, ls), fs, (ks, ws), flags, script, bk)| {
            let (x, _) = series_of(&rs, if int { InT::I32 } else { InT::F64 });
            let len = x.len();
            ACase {
                n: lag_of(len, lm, ls),
                fill: match fs % 3 {
                    0 => None,
                    _ => Some(fs as f64 - 90.0),
                },
                k: idx(ks, len + 3),
                w: 1 + idx(ws, len + 2),
                flags,
                pops: script.len().min(3),
                script,
                int,
                bk,
                x,
            }
        })
}

fn nontrivial_a(c: &ACase, obs: &mut Obs) {
    let len = c.x.len();
    let na = c.n.unsigned_abs() as usize;
    obs.set_nontrivial(na >= len || c.k >= len || (c.script.iter().any(|s| *s) && c.script.iter().any(|s| !*s)));
    obs.class_if(na >= len, "lag>=len");
    obs.class_if(c.k >= len, "kth>=len");
    obs.class_if(len == 0, "len=0");
    obs.class_if(c.w > len, "w>len");
}

macro_rules! typed {
    ($c:expr, |$d:ident : $T:ident, $fill:ident| $body:expr) => {
        if $c.int {
            type $T = i32;
            let $d: Vec<i32> = materialize(&$c.x);
            let $fill: Option<i32> = Some($c.fill.unwrap_or(0.0) as i32);
            $body
        } else {
            type $T = f64;
            let $d: Vec<f64> = materialize(&$c.x);
            let $fill: Option<f64> = $c.fill;
            $body
        }
    };
}

fn check_shift(c: &ACase, obs: &mut Obs) -> CheckResult {
    nontrivial_a(c, obs);
    let len = c.x.len();
    typed!(c, |d: T, fill| {
        let f = fill.unwrap_or(<T as tvh::conv::InElem>::from_logical(if c.int { Some(0.0) } else { None }));
        let h = hint_law_fwd("shift", || d.titer().shift(c.n, f.clone()), c.pops)?;
        if h != len {
            return fail("shift:length-not-preserved", format!("shift(n={}) announces {} items for {} inputs", c.n, h, len));
        }
        collectors("shift", || d.titer().shift(c.n, f.clone()), len)
    })
}

fn check_vshift(c: &ACase, obs: &mut Obs) -> CheckResult {
    nontrivial_a(c, obs);
    let len = c.x.len();
    typed!(c, |d: T, fill| {
        let h = hint_law_fwd("vshift", || d.titer().vshift(c.n, fill.clone()), c.pops)?;
        if h != len {
            return fail("vshift:length-not-preserved", format!("vshift(n={}) announces {} items for {} inputs", c.n, h, len));
        }
        collectors("vshift", || d.titer().vshift(c.n, fill.clone()), len)
    })
}

struct DiffB<'c> {
    c: &'c ACase,
    pct: bool,
}
impl<'c, T> ViewFn<T> for DiffB<'c>
where
    T: IsNone + Clone + std::ops::Sub<Output = T> + Zero + OutElem + std::fmt::Debug + Cast<f64> + tvh::conv::InElem,
{
    type Out = Result<&'static str, Fail>;
    fn call<V: Vec1View<T>>(&mut self, v: &V, label: &'static str) -> Self::Out {
        let c = self.c;
        let len = v.len();
        if self.pct {
            let h = hint_law_fwd("vpct_change", || v.vpct_change(c.n), c.pops)?;
            if h != len {
                return fail("vpct_change:length-not-preserved", format!("vpct_change(n={}) announces {} items for {} inputs", c.n, h, len));
            }
            collectors("vpct_change", || v.vpct_change(c.n), len)?;
        } else {
            let fill: Option<T> = if c.int { Some(T::from_logical(Some(c.fill.unwrap_or(0.0)))) } else { c.fill.map(|f| T::from_logical(Some(f))) };
            let h = hint_law_fwd("vdiff", || v.vdiff(c.n, fill.clone()), c.pops)?;
            if h != len {
                return fail("vdiff:length-not-preserved", format!("vdiff(n={}) announces {} items for {} inputs", c.n, h, len));
            }
            collectors("vdiff", || v.vdiff(c.n, fill.clone()), len)?;
        }
        Ok(label)
    }
}

fn check_vdiff(c: &ACase, pct: bool, obs: &mut Obs) -> CheckResult {
    nontrivial_a(c, obs);
    let label = if c.int {
        let d: Vec<i32> = materialize(&c.x);
        with_backend(c.bk, &d, 7, &mut DiffB { c, pct })?
    } else {
        let d: Vec<f64> = materialize(&c.x);
        with_backend(c.bk, &d, 7.0, &mut DiffB { c, pct })?
    };
    obs.class(label);
    Ok(())
}

fn check_fills(c: &ACase, obs: &mut Obs) -> CheckResult {
    nontrivial_a(c, obs);
    obs.set_nontrivial(c.x.len() >= 2);
    let len = c.x.len();
    typed!(c, |d: T, fill| {
        let fv = fill.clone().unwrap_or(<T as tvh::conv::InElem>::from_logical(if c.int { Some(0.0) } else { None }));
        macro_rules! one {
            ($name:expr, $mk:expr) => {{
                let h = hint_law_fwd($name, || $mk, c.pops)?;
                if h != len {
                    return fail(format!("{}:length-not-preserved", $name), format!("{} announces {} items for {} inputs", $name, h, len));
                }
                collectors($name, || $mk, len)?;
            }};
        }
        one!("ffill", d.titer().ffill(fill.clone()));
        one!("bfill", d.titer().bfill(fill.clone()));
        one!("ffill_mask", d.titer().ffill_mask(|v: &T| v.to_logical().map(|x| x < 0.0).unwrap_or(true), fill.clone()));
        one!("bfill_mask", d.titer().bfill_mask(|v: &T| v.to_logical().map(|x| x < 0.0).unwrap_or(true), fill.clone()));
        one!("fill", d.titer().fill(fv.clone()));
        one!("fill_mask", d.titer().fill_mask(|v: &T| v.to_logical().map(|x| x > 0.0).unwrap_or(false), fv.clone()));
        one!("vabs", d.titer().vabs());
        one!("abs", MapBasic::abs(d.titer()));
        let lo = <T as tvh::conv::InElem>::from_logical(Some(-3.0));
        let hi = <T as tvh::conv::InElem>::from_logical(Some(c.k as f64));
        one!("vclip", d.titer().vclip(lo.clone(), hi.clone()));
        Ok(())
    })
}

/// The std adaptors the library marks as trusted-length (scan, zip, chain, step_by, enumerate, take,
/// rev, repeat_n): each one, and a library consumer of its announced length stacked on top (vshift,
/// the trusted collectors), must yield exactly what is announced.
fn check_std_adaptors(c: &ACase, obs: &mut Obs) -> CheckResult {
    let v: Vec<f64> = materialize(&c.x);
    let len = v.len();
    let w: Vec<f64> = v.iter().take(c.k.min(len + 2)).map(|x| x + 0.5).collect();
    let (lag, fill) = (c.n, c.fill);
    macro_rules! one {
        ($name:expr, $mk:expr) => {{
            let h = hint_law_upper($name, || $mk, c.pops)?;
            let safe: Vec<f64> = Iterator::collect($mk);
            if safe.len() != h {
                return fail(format!("{}:hint!=count", $name), format!("{} announces {} and yields {}", $name, h, safe.len()));
            }
            if TrustedLen::len(&$mk) != h {
                return fail(format!("{}:len()", $name), format!("{}: TrustedLen::len() = {}, the iterator yields {}", $name, TrustedLen::len(&$mk), h));
            }
            // a consumer that sizes its output from the announced length
            let h2 = hint_law_upper(&format!("{}.vshift", $name), || ($mk).vshift(lag, fill), c.pops)?;
            if h2 != h {
                return fail(format!("{}.vshift:length-not-preserved", $name), format!("vshift over {} announces {} items for {}", $name, h2, h));
            }
            collectors($name, || $mk, h)?;
        }};
    }
    one!("scan", v.titer().scan(0.0f64, |a, x| {
        *a += if x.is_nan() { 0.0 } else { x };
        Some(*a)
    }));
    one!("zip", v.titer().zip(w.titer()).map(|(a, b)| a + b));
    one!("chain", v.titer().chain(w.titer()));
    one!("step_by", v.titer().step_by(1 + c.k % 4));
    one!("enumerate", v.titer().enumerate().map(|(i, x)| x + i as f64));
    one!("take", v.titer().take(c.k));
    one!("rev", v.titer().rev());
    one!("repeat_n.chain", std::iter::repeat_n(1.5f64, c.k % 5).chain(v.titer()));
    one!("range.map", (0..c.k).map(|i| i as f64));
    // step_by advances its source with nth: the library adaptors underneath must keep counting
    one!("vshift.step_by", v.titer().vshift(lag, fill).step_by(1 + c.k % 4));
    one!("to_trust.step_by", v.titer().to_trust(len).step_by(2 + c.k % 3));
    one!("vabs.ffill.step_by", v.titer().vabs().ffill(fill).step_by(1 + c.w % 3));
    // nth directly on the length-tracking wrapper and on an adaptor built on it
    for n in [0usize, 1, c.k % (len + 2)] {
        let mut it = v.titer().to_trust(len);
        let _ = it.nth(n);
        let (lo, hi) = it.size_hint();
        let rest = it.count();
        if hi != Some(rest) || lo != rest {
            return fail("to_trust.nth:hint!=count", format!("to_trust({}) after nth({}) announces ({}, {:?}) but {} items follow", len, n, lo, hi, rest));
        }
        let mut it = v.titer().vshift(lag, fill);
        let _ = it.nth(n);
        let (_, hi) = it.size_hint();
        let rest = it.count();
        if hi != Some(rest) {
            return fail("vshift.nth:hint!=count", format!("vshift({}) after nth({}) announces {:?} but {} items follow", lag, n, hi, rest));
        }
    }
    obs.set_nontrivial(len >= 2 && c.k >= 1);
    Ok(())
}

struct TiterB<'c> {
    c: &'c ACase,
}
impl<'c, T> ViewFn<T> for TiterB<'c>
where
    T: IsNone + Clone + OutElem + std::fmt::Debug + Cast<f64>,
    T::Inner: Cast<f64> + OutElem + std::fmt::Debug + IsNone,
    Option<T::Inner>: OutElem,
{
    type Out = Result<&'static str, Fail>;
    fn call<V: Vec1View<T>>(&mut self, v: &V, label: &'static str) -> Self::Out {
        let c = self.c;
        let len = v.len();
        for (name, h) in [
            ("titer", hint_law_bi("titer", || v.titer(), &c.script)?),
            ("titer.rev", hint_law_bi("titer.rev", || v.titer().rev(), &c.script)?),
            ("iter_cast", hint_law_bi("iter_cast", || v.iter_cast::<f64>(), &c.script)?),
            ("opt_iter_cast", hint_law_bi("opt_iter_cast", || v.opt_iter_cast::<f64>(), &c.script)?),
            ("to_opt_iter", hint_law_bi("to_opt_iter", || v.to_opt_iter(), &c.script)?),
            ("map", hint_law_bi("TIter::map", || TIter::map(v, |x| x), &c.script)?),
            // the wrapper that turns any iterator of known length into a trusted one, consumed from both ends
            ("to_trust", hint_law_bi("to_trust", || v.titer().to_trust(len), &c.script)?),
            ("to_trust.rev", hint_law_bi("to_trust.rev", || v.titer().to_trust(len).rev(), &c.script)?),
        ] {
            if h != len {
                return fail(format!("{}:len", name), format!("{} of a container of length {} announces {}", name, len, h));
            }
        }
        collectors("titer", || v.titer(), len)?;
        collectors("iter_cast", || v.iter_cast::<f64>(), len)?;
        Ok(label)
    }
}

fn check_titer(c: &ACase, obs: &mut Obs) -> CheckResult {
    nontrivial_a(c, obs);
    let label = if c.int {
        let d: Vec<i32> = materialize(&c.x);
        with_backend(c.bk, &d, 7, &mut TiterB { c })?
    } else {
        let d: Vec<f64> = materialize(&c.x);
        with_backend(c.bk, &d, 7.0, &mut TiterB { c })?
    };
    obs.class(label);
    // the option view
    let d: Vec<f64> = materialize(&c.x);
    let o = d.opt();
    let h = hint_law_bi("opt.titer", || o.titer(), &c.script)?;
    if h != d.len() {
        return fail("opt.titer:len", "option view iterator length");
    }
    let h = hint_law_fwd("opt.into_iter", || (&o).into_iter(), c.pops)?;
    if h != d.len() {
        return fail("opt.into_iter:len", "option view into_iter length");
    }
    collectors("opt.titer", || o.titer(), d.len())?;
    Ok(())
}

fn check_partition(c: &ACase, obs: &mut Obs) -> CheckResult {
    nontrivial_a(c, obs);
    // nullable element type so that padding is representable (DESIGN 5.7)
    let d: Vec<f64> = c.x.iter().map(|v| v.unwrap_or(f64::NAN)).collect();
    let (sort, rev) = (c.flags & 1 != 0, c.flags & 2 != 0);
    let h = hint_law_fwd("varg_partition", || d.varg_partition(c.k, sort, rev), c.pops)?;
    if h != c.k + 1 {
        return fail("varg_partition:len", format!("varg_partition(k={}) announces {} items", c.k, h));
    }
    collectors("varg_partition", || d.varg_partition(c.k, sort, rev), h)?;
    let h = hint_law_fwd("vpartition", || d.vpartition(c.k, sort, rev), c.pops)?;
    collectors("vpartition", || d.vpartition(c.k, sort, rev), h)?;
    obs.class_if(sort, "sorted");
    Ok(())
}

fn check_rolling_iter(c: &ACase, obs: &mut Obs) -> CheckResult {
    nontrivial_a(c, obs);
    let d: Vec<f64> = c.x.iter().map(|v| v.unwrap_or(f64::NAN)).collect();
    let len = d.len();
    let h = hint_law_fwd("rolling_custom_iter", || d.rolling_custom_iter(c.w, |s: &[f64]| s.len() as f64), c.pops)?;
    if h != len {
        return fail("rolling_custom_iter:len", format!("rolling_custom_iter(w={}) announces {} items for {} inputs", c.w, h, len));
    }
    collectors("rolling_custom_iter", || d.rolling_custom_iter(c.w, |s: &[f64]| s.len() as f64), len)?;
    let dq: std::collections::VecDeque<f64> = Iterator::collect(d.iter().cloned());
    let h = hint_law_fwd("rolling_custom_iter(vecdeque)", || dq.rolling_custom_iter(c.w, |s| Iterator::count(s) as f64), c.pops)?;
    if h != len {
        return fail("rolling_custom_iter:len", "vecdeque length");
    }
    Ok(())
}

fn check_winsorize_cut(c: &ACase, obs: &mut Obs) -> CheckResult {
    nontrivial_a(c, obs);
    obs.set_nontrivial(c.x.len() >= 2);
    let d: Vec<f64> = c.x.iter().map(|v| v.unwrap_or(f64::NAN)).collect();
    let len = d.len();
    for (name, m, p) in [
        ("winsorize(quantile)", WinsorizeMethod::Quantile, 0.1),
        ("winsorize(median)", WinsorizeMethod::Median, 1.0),
        ("winsorize(sigma)", WinsorizeMethod::Sigma, 1.0),
    ] {
        let h = hint_law_fwd(name, || d.winsorize(m, Some(p)).unwrap(), c.pops)?;
        if h != len {
            return fail(format!("{}:len", name), format!("{} announces {} items for {} inputs", name, h, len));
        }
        collectors(name, || d.winsorize(m, Some(p)).unwrap(), len)?;
    }
    // vcut with bins / labels of all small sizes
    let nb = (c.flags % 6) as usize;
    let add_bounds = c.flags & 64 != 0;
    let right = c.flags & 128 != 0;
    let bins: Vec<f64> = (0..nb).map(|i| i as f64 * 2.0 - 3.0).collect();
    let nl = if add_bounds { nb + 1 } else { nb.saturating_sub(1) };
    let labels: Vec<f64> = (0..nl).map(|i| i as f64).collect();
    if add_bounds || nb >= 1 {
        let mk = || d.titer().vcut(&bins, &labels, right, add_bounds).unwrap();
        let h = hint_law_fwd("vcut", mk, c.pops)?;
        if h != len {
            return fail("vcut:len", format!("vcut announces {} items for {} inputs", h, len));
        }
        let safe: Vec<TResult<f64>> = Iterator::collect(mk());
        if safe.len() != len {
            return fail("vcut:len", "vcut item count");
        }
    }
    Ok(())
}

// ---------------------------------------------------------------------------------------------
// random pipelines of depth 1..=6

fn pop_strategy(len_hint: usize) -> impl Strategy<Value = POp> {
    let l = len_hint as i32;
    prop_oneof![
        (-(l + 3)..=(l + 3), any::<u8>()).prop_map(|(n, f)| POp::VShift(n, if f % 2 == 0 { None } else { Some(f as f64) })),
        (-(l + 3)..=(l + 3), any::<i8>()).prop_map(|(n, f)| POp::Shift(n, f as f64)),
        Just(POp::VAbs),
        Just(POp::Abs),
        any::<i8>().prop_map(|f| POp::Fill(f as f64)),
        any::<u8>().prop_map(|f| POp::FFill(if f % 2 == 0 { None } else { Some(f as f64) })),
        (any::<i8>(), any::<i8>(), any::<u8>()).prop_map(|(a, b, m)| {
            let (lo, hi) = ((a.min(b)) as f64, (a.max(b)) as f64);
            match m % 4 {
                0 => POp::Clip(None, Some(hi)),
                1 => POp::Clip(Some(lo), None),
                _ => POp::Clip(Some(lo), Some(hi)),
            }
        }),
        any::<i8>().prop_map(|f| POp::FillNeg(f as f64)),
        Just(POp::ToTrust),
    ]
}

fn p_case(tier: Tier) -> impl Strategy<Value = PCase> {
    raw_series(len_strategy(tier, 16, 64)).prop_flat_map(|rs| {
        let (x, _) = series_of(&rs, InT::F64);
        let len = x.len();
        (Just(x), proptest::collection::vec(pop_strategy(len), 1..=6), 0usize..4).prop_map(|(x, ops, pops)| PCase { x, ops, pops })
    })
}

// ---------------------------------------------------------------------------------------------
// generators collected through the trusted collector

#[derive(Clone, Debug, Serialize, Deserialize)]
struct GCase {
    start: i32,
    end: i32,
    step: i32,
    n: usize,
    scale: u8,
}

fn g_case(_: Tier) -> impl Strategy<Value = GCase> {
    (-40i32..=40, -40i32..=40, prop_oneof![1i32..=7, -7i32..=-1], 0usize..=40, 0u8..3).prop_map(|(start, end, step, n, scale)| GCase { start, end, step, n, scale })
}

fn progression_count(start: i64, end: i64, step: i64) -> usize {
    let mut k = 0usize;
    let mut v = start;
    while (step > 0 && v < end) || (step < 0 && v > end) {
        k += 1;
        v += step;
    }
    k
}

fn check_generators(c: &GCase, obs: &mut Obs) -> CheckResult {
    let cnt = progression_count(c.start as i64, c.end as i64, c.step as i64);
    obs.set_nontrivial(cnt == 0 || (c.end - c.start) % c.step != 0 || c.step < 0);
    obs.class_if(cnt == 0, "empty_span");
    obs.class_if((c.end - c.start) % c.step != 0, "non_divisible");
    let sc = [1.0, 0.5, 0.125][c.scale as usize];
    let v: Vec<f64> = Vec1Create::range(Some(c.start as f64 * sc), c.end as f64 * sc, Some(c.step as f64 * sc));
    if v.len() != cnt {
        return fail("range<f64>:len", format!("range({},{},{})*{} has {} elements, progression has {}", c.start, c.end, c.step, sc, v.len(), cnt));
    }
    // non-dyadic steps: (end-start)/step is not exact, so no independent count exists; the law is only
    // that the generator yields exactly what it announces (instrumented container, collected safely)
    for dec in [0.1f64, 0.3, 0.01, 0.7, 1e-3] {
        let (a, b, st) = (c.start as f64 * dec, c.end as f64 * dec, c.step as f64 * dec);
        tvh::chk::reset_log();
        let safe: tvh::chk::ChkOut<f64> = Vec1Create::range(Some(a), b, Some(st));
        let log = tvh::chk::take_log();
        if let Some(v) = log.violations.first() {
            return fail("range<f64>:hint!=count", format!("range({:?},{:?},{:?}): {}", a, b, st, v));
        }
        let real: Vec<f64> = Vec1Create::range(Some(a), b, Some(st));
        if real.len() != safe.0.len() {
            return fail("range<f64>:hint!=count", format!("range({:?},{:?},{:?}): trusted collection has {} elements, safe iteration {}", a, b, st, real.len(), safe.0.len()));
        }
        let safe32: tvh::chk::ChkOut<f32> = Vec1Create::range(Some(a as f32), b as f32, Some(st as f32));
        if let Some(v) = tvh::chk::take_log().violations.first() {
            return fail("range<f32>:hint!=count", format!("range({:?},{:?},{:?}) as f32: {}", a, b, st, v));
        }
        let _ = safe32;
    }
    tvh::chk::reset_log();
    let lin: tvh::chk::ChkOut<f64> = Vec1Create::linspace(Some(c.start as f64 * 0.1), c.end as f64 * 0.3, c.n);
    if let Some(v) = tvh::chk::take_log().violations.first() {
        return fail("linspace:hint!=count", format!("linspace n={}: {}", c.n, v));
    }
    if lin.0.len() != c.n {
        return fail("linspace:len", format!("linspace n={} yields {} elements", c.n, lin.0.len()));
    }
    let v: Vec<i32> = Vec1Create::range(Some(c.start), c.end, Some(c.step));
    if v.len() != cnt {
        return fail("range<i32>:len", format!("range({},{},{}) has {} elements, progression has {}", c.start, c.end, c.step, v.len(), cnt));
    }
    let v: std::collections::VecDeque<i64> = Vec1Create::range(Some(c.start as i64), c.end as i64, Some(c.step as i64));
    if v.len() != cnt {
        return fail("range<i64>:len", format!("range({},{},{}) into VecDeque has {} elements, progression has {}", c.start, c.end, c.step, v.len(), cnt));
    }
    let v: Array1<f64> = Vec1Create::linspace(Some(c.start as f64), c.end as f64, c.n);
    if v.len() != c.n {
        return fail("linspace:len", format!("linspace n={} has {} elements", c.n, v.len()));
    }
    let v: Vec<i32> = Vec1Create::linspace(Some(c.start), c.end, c.n);
    if v.len() != c.n {
        return fail("linspace<i32>:len", format!("linspace n={} has {} elements", c.n, v.len()));
    }
    Ok(())
}

fn main() {
    let mut p = Property::new(
        "C09",
        "cases = (series of length 0..=16 (thorough ..=64), adaptor parameters in a band around the critical sizes: lag n in -len-3..=len+3 and +-(len+1), i32::MIN/MAX; kth 0..=len+2; window 1..=len+1; bins/labels of sizes 0..=5; consumption script of 0..=5 front/back pops; input backend) per adaptor, plus random pipelines of depth 1..=6 built from vshift/shift/vabs/abs/fill/ffill/vclip/fill_mask/to_trust; oracle: after EVERY prefix of the consumption script the iterator is rebuilt, popped, and (lower, upper) size_hint must both equal the number of items obtained by plain safe iteration under a cap; only then the trusted collectors (Vec, VecDeque, Array1, with_len, try_) are run and compared with safe collection; shift-like adaptors must announce the input length; pipeline content is compared with the reference interpreter. \
         Non-trivial = |n| >= len or kth >= len or pipeline depth >= 3 or a script that pops from both ends; distinct = distinct serialised cases",
    )
    .assume("the oracle never trusts the hint: items are counted with plain next() under a cap, and trusted collectors only run after the hint law held before consumption")
    .assume("partition padding needs a nullable element type (DESIGN 5.7): partitions run on f64")
    .assume("thorough tier: libFuzzer target fz_iter decodes bytes into pipeline programs and runs the same oracle (collectors under ASan)")
    .raw(|bytes| ("pipeline".to_string(), serde_json::to_value(tvh::fuzzable::decode_pipeline(bytes)).unwrap()));
    p.add(sub("shift", 6000, 200000, a_case, check_shift));
    p.add(sub("vshift", 6000, 200000, a_case, check_vshift));
    p.add(sub("vdiff", 6000, 200000, a_case, |c: &ACase, o: &mut Obs| check_vdiff(c, false, o)));
    p.add(sub("vpct_change", 6000, 200000, a_case, |c: &ACase, o: &mut Obs| check_vdiff(c, true, o)));
    p.add(sub("fill_clip_abs", 4000, 100000, a_case, check_fills));
    p.add(sub("container_iterators", 6000, 200000, a_case, check_titer));
    p.add(sub("partition", 6000, 200000, a_case, check_partition));
    p.add(sub("rolling_custom_iter", 4000, 100000, a_case, check_rolling_iter));
    p.add(sub("winsorize_vcut", 4000, 100000, a_case, check_winsorize_cut));
    p.add(sub("pipeline", 12000, 600000, p_case, check_pipeline));
    p.add(sub("std_adaptors_marked_trusted", 4000, 100000, a_case, check_std_adaptors));
    p.add(sub("range_linspace", 6000, 200000, g_case, check_generators));
    main_for(p);
}
