//! C02 — rolling drivers call back once per position with exactly the right window.
use std::cell::RefCell;
use std::collections::VecDeque;
use std::sync::Arc;

use proptest::prelude::*;
use serde::{Deserialize, Serialize};
use tevec::export::ndarray::{s, Array1};
use tevec::prelude::{Vec1, Vec1View};
use tvh::backends::{make_deque, run_out, strided_parent, with_backend, Backend, OutC, OutKind, ViewFn, VIEW_STEPS};
use tvh::engine::{canary, fail, main_for, sub, sub_enum, CheckResult, Obs, Property, Tier};
use tvh::gen::{backend_strategy, idx, outkind_strategy};

#[derive(Clone, Copy, Debug, PartialEq, Eq, Serialize, Deserialize)]
enum Drv {
    Apply,
    ApplyIdx,
    Apply2,
    Apply2Idx,
    ApplyTo,
    ApplyIdxTo,
    Apply2To,
    Apply2IdxTo,
    Custom,
    CustomTo,
    Custom2,
    CustomIter,
}

const DRIVERS: [Drv; 12] = [
    Drv::Apply,
    Drv::ApplyIdx,
    Drv::Apply2,
    Drv::Apply2Idx,
    Drv::ApplyTo,
    Drv::ApplyIdxTo,
    Drv::Apply2To,
    Drv::Apply2IdxTo,
    Drv::Custom,
    Drv::CustomTo,
    Drv::Custom2,
    Drv::CustomIter,
];

impl Drv {
    fn name(self) -> &'static str {
        match self {
            Drv::Apply => "rolling_apply",
            Drv::ApplyIdx => "rolling_apply_idx",
            Drv::Apply2 => "rolling2_apply",
            Drv::Apply2Idx => "rolling2_apply_idx",
            Drv::ApplyTo => "rolling_apply_to",
            Drv::ApplyIdxTo => "rolling_apply_idx_to",
            Drv::Apply2To => "rolling2_apply_to",
            Drv::Apply2IdxTo => "rolling2_apply_idx_to",
            Drv::Custom => "rolling_custom",
            Drv::CustomTo => "rolling_custom_to",
            Drv::Custom2 => "rolling2_custom",
            Drv::CustomIter => "rolling_custom_iter",
        }
    }
    fn slice_form(self) -> bool {
        matches!(self, Drv::Custom | Drv::CustomTo | Drv::Custom2 | Drv::CustomIter)
    }
    fn always_buffer(self) -> bool {
        matches!(self, Drv::ApplyTo | Drv::ApplyIdxTo | Drv::Apply2To | Drv::Apply2IdxTo | Drv::CustomTo)
    }
}

#[derive(Clone, Debug, Serialize, Deserialize)]
struct DCase {
    len: usize,
    w: usize,
    drv: Drv,
    bk: Backend,
    ok: OutKind,
    out_buf: bool,
}

/// what the callback saw
#[derive(Clone, Debug, PartialEq)]
enum Ev {
    Apply(Option<i32>, i32),
    Idx(Option<usize>, usize, i32),
    Apply2(Option<(i32, i32)>, (i32, i32)),
    Idx2(Option<usize>, usize, (i32, i32)),
    Slice(Vec<i32>),
    Slice2(Vec<i32>, Vec<i32>),
}

fn xs(len: usize) -> Vec<i32> {
    (0..len as i32).map(|i| 1000 + i).collect()
}
fn ys(len: usize) -> Vec<i32> {
    (0..len as i32).map(|i| 5000 + 3 * i).collect()
}

struct Rec {
    log: RefCell<Vec<Ev>>,
}
impl Rec {
    fn hit(&self, e: Ev) -> i32 {
        let mut l = self.log.borrow_mut();
        l.push(e);
        // stateful: the returned token is the call number
        l.len() as i32 - 1
    }
}

/// non-slice drivers, generic over the view
struct DrvFn<'a> {
    c: &'a DCase,
    rec: &'a Rec,
    y: &'a Vec<i32>,
}

fn run_generic<V: Vec1View<i32>, O: OutC<i32>>(v: &V, f: &DrvFn) -> Result<Vec<i32>, String> {
    let (c, rec, y) = (f.c, f.rec, f.y);
    let len = v.len();
    let w = c.w;
    match c.drv {
        Drv::Apply => run_out::<O, i32, _>(len, c.out_buf, |buf| v.rolling_apply::<O, i32, _>(w, |rm, x| rec.hit(Ev::Apply(rm, x)), buf)),
        Drv::ApplyIdx => run_out::<O, i32, _>(len, c.out_buf, |buf| v.rolling_apply_idx::<O, i32, _>(w, |s, e, x| rec.hit(Ev::Idx(s, e, x)), buf)),
        Drv::Apply2 => run_out::<O, i32, _>(len, c.out_buf, |buf| v.rolling2_apply::<O, i32, _, _, _>(y, w, |rm, x| rec.hit(Ev::Apply2(rm, x)), buf)),
        Drv::Apply2Idx => run_out::<O, i32, _>(len, c.out_buf, |buf| v.rolling2_apply_idx::<O, i32, _, _, _>(y, w, |s, e, x| rec.hit(Ev::Idx2(s, e, x)), buf)),
        Drv::ApplyTo => run_out::<O, i32, _>(len, true, |buf| {
            v.rolling_apply_to::<O, i32, _>(w, |rm, x| rec.hit(Ev::Apply(rm, x)), buf.unwrap());
            None
        }),
        Drv::ApplyIdxTo => run_out::<O, i32, _>(len, true, |buf| {
            v.rolling_apply_idx_to::<O, i32, _>(w, |s, e, x| rec.hit(Ev::Idx(s, e, x)), buf.unwrap());
            None
        }),
        Drv::Apply2To => run_out::<O, i32, _>(len, true, |buf| {
            v.rolling2_apply_to::<O, i32, _, _, _>(y, w, |rm, x| rec.hit(Ev::Apply2(rm, x)), buf.unwrap());
            None
        }),
        Drv::Apply2IdxTo => run_out::<O, i32, _>(len, true, |buf| {
            v.rolling2_apply_idx_to::<O, i32, _, _, _>(y, w, |s, e, x| rec.hit(Ev::Idx2(s, e, x)), buf.unwrap());
            None
        }),
        _ => unreachable!(),
    }
}

impl<'a> ViewFn<i32> for DrvFn<'a> {
    type Out = (Result<Vec<i32>, String>, &'static str);
    fn call<V: Vec1View<i32>>(&mut self, v: &V, label: &'static str) -> Self::Out {
        let r = match self.c.ok {
            OutKind::Vec => run_generic::<V, Vec<i32>>(v, self),
            OutKind::Deque => run_generic::<V, VecDeque<i32>>(v, self),
            OutKind::Nd => run_generic::<V, Array1<i32>>(v, self),
        };
        (r, label)
    }
}

/// slice-form drivers on a concrete view type; `$read` turns that type's slice into a Vec<i32>
macro_rules! slice_drivers {
    (@two yes, $v:expr, $O:ty, $y:expr, $w:expr, $rec:expr, $buf:expr, |$s:ident| $read:expr, |$s2:ident| $read2:expr) => {
        $v.rolling2_custom::<$O, i32, _, _, _>($y, $w, |$s, $s2| $rec.hit(Ev::Slice2($read, $read2)), $buf)
    };
    (@two no, $v:expr, $O:ty, $y:expr, $w:expr, $rec:expr, $buf:expr, |$s:ident| $read:expr, |$s2:ident| $read2:expr) => {{
        // rolling2_custom cannot be instantiated on a borrowed view (its closure bound is
        // higher-ranked over the slice lifetime, which forces the view type to be 'static)
        let _ = (&$y, $w, &$buf);
        unreachable!()
    }};
    ($two:ident, $v:expr, $c:expr, $rec:expr, $y:expr, $O:ty, |$s:ident| $read:expr, |$s2:ident| $read2:expr) => {{
        let v = $v;
        let (c, rec, y) = ($c, $rec, $y);
        let len = v.len();
        let w = c.w;
        match c.drv {
            Drv::Custom => run_out::<$O, i32, _>(len, c.out_buf, |buf| v.rolling_custom::<$O, i32, _>(w, |$s| rec.hit(Ev::Slice($read)), buf)),
            Drv::CustomTo => run_out::<$O, i32, _>(len, true, |buf| {
                v.rolling_custom_to::<$O, i32, _>(w, |$s| rec.hit(Ev::Slice($read)), buf.unwrap());
                None
            }),
            Drv::Custom2 => run_out::<$O, i32, _>(len, c.out_buf, |buf| {
                slice_drivers!(@two $two, v, $O, y, w, rec, buf, |$s| $read, |$s2| $read2)
            }),
            Drv::CustomIter => {
                let it = v.rolling_custom_iter(w, |$s| rec.hit(Ev::Slice($read)));
                Ok(Iterator::collect::<Vec<i32>>(it))
            },
            _ => unreachable!(),
        }
    }};
}

macro_rules! slice_by_out {
    ($two:ident, $v:expr, $c:expr, $rec:expr, $y:expr, |$s:ident| $read:expr) => {
        match $c.ok {
            OutKind::Vec => slice_drivers!($two, $v, $c, $rec, $y, Vec<i32>, |$s| $read, |s2| s2.to_vec()),
            OutKind::Deque => slice_drivers!($two, $v, $c, $rec, $y, VecDeque<i32>, |$s| $read, |s2| s2.to_vec()),
            OutKind::Nd => slice_drivers!($two, $v, $c, $rec, $y, Array1<i32>, |$s| $read, |s2| s2.to_vec()),
        }
    };
}

fn run_slice(c: &DCase, rec: &Rec, x: &[i32], y: &Vec<i32>) -> (Result<Vec<i32>, String>, &'static str) {
    let bk = match (c.bk, c.drv) {
        // not offered by the API for borrowed views: run the owned array instead
        (Backend::NdView { .. }, Drv::Custom2) | (Backend::NdViewMut, Drv::Custom2) => Backend::Nd,
        (b, _) => b,
    };
    match bk {
        Backend::Vec | Backend::Array => {
            let v = x.to_vec();
            (slice_by_out!(yes, &v, c, rec, y, |s| s.to_vec()), "vec")
        },
        Backend::Deque { rot } => {
            let d = make_deque(x, rot);
            (slice_by_out!(yes, &d, c, rec, y, |s| s.cloned().collect()), "vecdeque")
        },
        Backend::Nd => {
            let a = Array1::from_vec(x.to_vec());
            (slice_by_out!(yes, &a, c, rec, y, |s| s.to_vec()), "ndarray")
        },
        Backend::NdView { step } => {
            let parent = strided_parent(x, step, -1);
            let view = parent.slice(s![..;step]);
            (slice_by_out!(no, &view, c, rec, y, |s| s.to_vec()), "ndview")
        },
        Backend::NdViewMut => {
            let mut a = Array1::from_vec(x.to_vec());
            let vm = a.view_mut();
            (slice_by_out!(no, &vm, c, rec, y, |s| s.to_vec()), "ndviewmut")
        },
        Backend::ArcVec => {
            let v = Arc::new(x.to_vec());
            (slice_by_out!(yes, &v, c, rec, y, |s| s.to_vec()), "arc_vec")
        },
        Backend::ArcDeque { rot } => {
            let d = Arc::new(make_deque(x, rot));
            (slice_by_out!(yes, &d, c, rec, y, |s| s.cloned().collect()), "arc_vecdeque")
        },
        Backend::ArcNd => {
            let a = Arc::new(Array1::from_vec(x.to_vec()));
            (slice_by_out!(yes, &a, c, rec, y, |s| s.to_vec()), "arc_ndarray")
        },
    }
}

fn check_driver(c: &DCase, obs: &mut Obs) -> CheckResult {
    let (len, w) = (c.len, c.w);
    let x = xs(len);
    let y = ys(len);
    let rec = Rec { log: RefCell::new(vec![]) };
    let (r, label) = if c.drv.slice_form() {
        run_slice(c, &rec, &x, &y)
    } else {
        with_backend(c.bk, &x, -1, &mut DrvFn { c, rec: &rec, y: &y })
    };
    let name = c.drv.name();
    let out = match r {
        Ok(o) => o,
        Err(e) => return fail(format!("{}:out-path", name), format!("{} on {}: {}", name, label, e)),
    };
    let log = rec.log.into_inner();
    let cell = format!("{} (len {}, w {}, {}, {:?}, out_buf {})", name, len, w, label, c.ok, c.out_buf);
    if log.len() != len {
        return fail(format!("{}:call-count", name), format!("{}: callback invoked {} times for {} positions", cell, log.len(), len));
    }
    if out.len() != len {
        return fail(format!("{}:output-length", name), format!("{}: output length {} for input length {}", cell, out.len(), len));
    }
    let unspecified = |i: usize| w > len && i + 1 == len; // removed argument at the final position
    for i in 0..len {
        let lo = (i + 1).saturating_sub(w);
        let rm_idx = if i + 1 >= w { Some(i + 1 - w) } else { None };
        let bad = |what: &str, got: String, want: String| fail(format!("{}:{}", name, what), format!("{}: call {} got {} expected {}", cell, i, got, want));
        match &log[i] {
            Ev::Apply(rm, v) => {
                if *v != x[i] {
                    return bad("new-element", format!("{}", v), format!("{}", x[i]));
                }
                if !unspecified(i) && *rm != rm_idx.map(|j| x[j]) {
                    return bad("removed-element", format!("{:?}", rm), format!("{:?}", rm_idx.map(|j| x[j])));
                }
            },
            Ev::Idx(s, e, v) => {
                if *v != x[i] || *e != i {
                    return bad("new-element", format!("({}, {})", e, v), format!("({}, {})", i, x[i]));
                }
                if !unspecified(i) && *s != rm_idx {
                    return bad("window-start", format!("{:?}", s), format!("{:?}", rm_idx));
                }
            },
            Ev::Apply2(rm, v) => {
                if *v != (x[i], y[i]) {
                    return bad("new-element", format!("{:?}", v), format!("{:?}", (x[i], y[i])));
                }
                if !unspecified(i) && *rm != rm_idx.map(|j| (x[j], y[j])) {
                    return bad("removed-element", format!("{:?}", rm), format!("{:?}", rm_idx.map(|j| (x[j], y[j]))));
                }
            },
            Ev::Idx2(s, e, v) => {
                if *v != (x[i], y[i]) || *e != i {
                    return bad("new-element", format!("({}, {:?})", e, v), format!("({}, {:?})", i, (x[i], y[i])));
                }
                if !unspecified(i) && *s != rm_idx {
                    return bad("window-start", format!("{:?}", s), format!("{:?}", rm_idx));
                }
            },
            Ev::Slice(sl) => {
                if sl[..] != x[lo..=i] {
                    return bad("window-slice", format!("{:?}", sl), format!("{:?}", &x[lo..=i]));
                }
            },
            Ev::Slice2(s1, s2) => {
                if s1[..] != x[lo..=i] || s2[..] != y[lo..=i] {
                    return bad("window-slice", format!("{:?} / {:?}", s1, s2), format!("{:?} / {:?}", &x[lo..=i], &y[lo..=i]));
                }
            },
        }
        if out[i] != i as i32 {
            return fail(format!("{}:output-placement", name), format!("{}: result of call {} stored so that position {} holds {}", cell, out[i], i, out[i]));
        }
    }
    obs.set_nontrivial(len >= 2 && w >= 2 && w <= len);
    obs.class(label);
    obs.class(name);
    obs.class_if(w > len, "w>len");
    obs.class_if(len == 0, "len=0");
    obs.class_if(c.out_buf || c.drv.always_buffer(), "out_buffer_path");
    Ok(())
}

/// Output placement into a caller-supplied ndarray view that is strided / reversed: position i of
/// the *view* (not memory slot i) must hold the token of call i and nothing else may be written. The
/// view sits inside a sentinel-filled allocation with len + 2 spare elements on either side, so that
/// an implementation ignoring the stride writes into the padding rather than out of bounds.
#[derive(Clone, Debug, Serialize, Deserialize)]
struct VCase {
    len: usize,
    w: usize,
    drv: usize,
    step: isize,
    deque_rot: usize,
}

fn out_view_cases(tier: Tier) -> impl Iterator<Item = VCase> {
    let max_len = tier.pick(8, 14);
    let mut v = vec![];
    for len in 0..=max_len {
        for w in 1..=len + 2 {
            for drv in 0..8 {
                for step in [1isize, 2, 3, -1, -2] {
                    v.push(VCase { len, w, drv, step, deque_rot: (len + w + drv) % 5 });
                }
            }
        }
    }
    v.into_iter()
}

fn check_out_view(c: &VCase, obs: &mut Obs) -> CheckResult {
    use std::mem::MaybeUninit;
    const SENT: i32 = -777;
    let (len, w) = (c.len, c.w);
    let (x, y) = (xs(len), ys(len));
    let dq = make_deque(&x, c.deque_rot);
    let st = c.step.unsigned_abs();
    let plen = if len == 0 { 0 } else { (len - 1) * st + 1 };
    let pad = len + 2;
    let mut parent: Array1<MaybeUninit<i32>> = Array1::from_elem(plen + 2 * pad, MaybeUninit::new(SENT));
    let calls = std::cell::Cell::new(0i32);
    let tok = || {
        let k = calls.get();
        calls.set(k + 1);
        k
    };
    let name = ["rolling_apply", "rolling_apply_idx", "rolling2_apply", "rolling2_apply_idx", "rolling_custom", "rolling_apply(vecdeque)", "rolling2_custom", "rolling_custom(vecdeque)"][c.drv];
    {
        let view = parent.slice_mut(s![pad..pad + plen;c.step]);
        let r: Option<Array1<i32>> = match c.drv {
            0 => x.rolling_apply::<Array1<i32>, i32, _>(w, |_, _| tok(), Some(view)),
            1 => x.rolling_apply_idx::<Array1<i32>, i32, _>(w, |_, _, _| tok(), Some(view)),
            2 => x.rolling2_apply::<Array1<i32>, i32, _, _, _>(&y, w, |_, _| tok(), Some(view)),
            3 => dq.rolling2_apply_idx::<Array1<i32>, i32, _, _, _>(&y, w, |_, _, _| tok(), Some(view)),
            4 => x.rolling_custom::<Array1<i32>, i32, _>(w, |_| tok(), Some(view)),
            5 => dq.rolling_apply::<Array1<i32>, i32, _>(w, |_, _| tok(), Some(view)),
            // the drivers that fill the buffer through the iterator writer rather than by index
            6 => x.rolling2_custom::<Array1<i32>, i32, _, _, _>(&y, w, |_: &[i32], _: &[i32]| tok(), Some(view)),
            _ => dq.rolling_custom::<Array1<i32>, i32, _>(w, |_| tok(), Some(view)),
        };
        if r.is_some() {
            return fail(format!("out_view:{}:out-path", name), "a value was returned although a buffer was supplied");
        }
    }
    let all: Vec<i32> = parent.iter().map(|v| unsafe { v.assume_init() }).collect();
    let got: Vec<i32> = parent.slice(s![pad..pad + plen;c.step]).iter().map(|v| unsafe { v.assume_init() }).collect();
    let want: Vec<i32> = (0..len as i32).collect();
    if got != want {
        return fail(format!("out_view:{}:placement", name), format!("{} (len {}, w {}) into an out view with step {}: the view reads {:?}, expected the call numbers {:?}", name, len, w, c.step, got, want));
    }
    if all.iter().filter(|v| **v != SENT).count() != len {
        return fail(format!("out_view:{}:outside-write", name), format!("{} (len {}, w {}) wrote outside its out view (step {})", name, len, w, c.step));
    }
    obs.set_nontrivial(len >= 2 && c.step != 1);
    obs.class(match c.step {
        1 => "out_view+1",
        2 => "out_view+2",
        3 => "out_view+3",
        -1 => "out_view-1",
        _ => "out_view-2",
    });
    Ok(())
}

/// A caller-supplied VecDeque output buffer whose ring storage is physically wrapped (what a
/// streaming deque looks like), and a second series that is longer than the first one (allowed: the
/// output and the number of calls follow the first series).
fn deque_out_cases(tier: Tier) -> impl Iterator<Item = VCase> {
    let max_len = tier.pick(8, 14);
    let mut v = vec![];
    for len in 0..=max_len {
        for w in 1..=len + 2 {
            for drv in 0..6 {
                for rot in 1..=3usize {
                    v.push(VCase { len, w, drv, step: (1 + (len + w) % 3) as isize, deque_rot: rot });
                }
            }
        }
    }
    v.into_iter()
}

fn check_deque_out(c: &VCase, obs: &mut Obs) -> CheckResult {
    use std::mem::MaybeUninit;
    const SENT: i32 = -777;
    let (len, w) = (c.len, c.w);
    let x = xs(len);
    // the second series is longer by `step` elements
    let y: Vec<i32> = ys(len + c.step as usize);
    let dq_in = make_deque(&x, c.deque_rot + 1);
    // wrapped uninitialised output deque of exactly `len` slots
    let mut out: VecDeque<MaybeUninit<i32>> = VecDeque::with_capacity(len.max(1));
    let cap = out.capacity();
    let r = if len == 0 { 0 } else { c.deque_rot % cap.max(1) };
    for _ in 0..r {
        out.push_back(MaybeUninit::new(SENT));
    }
    for _ in 0..r {
        out.pop_front();
    }
    for _ in 0..len {
        out.push_back(MaybeUninit::new(SENT));
    }
    let wrapped = !out.as_slices().1.is_empty();
    let calls = std::cell::Cell::new(0i32);
    let tok = || {
        let k = calls.get();
        calls.set(k + 1);
        k
    };
    let name = ["rolling_apply", "rolling_apply_idx", "rolling2_apply", "rolling2_apply_idx", "rolling_custom", "rolling2_apply(vecdeque input)"][c.drv];
    let ret: Option<VecDeque<i32>> = match c.drv {
        0 => x.rolling_apply::<VecDeque<i32>, i32, _>(w, |_, _| tok(), Some(&mut out)),
        1 => x.rolling_apply_idx::<VecDeque<i32>, i32, _>(w, |_, _, _| tok(), Some(&mut out)),
        2 => x.rolling2_apply::<VecDeque<i32>, i32, _, _, _>(&y, w, |_, _| tok(), Some(&mut out)),
        3 => x.rolling2_apply_idx::<VecDeque<i32>, i32, _, _, _>(&y, w, |_, _, _| tok(), Some(&mut out)),
        4 => x.rolling_custom::<VecDeque<i32>, i32, _>(w, |_| tok(), Some(&mut out)),
        _ => dq_in.rolling2_apply::<VecDeque<i32>, i32, _, _, _>(&y, w, |_, _| tok(), Some(&mut out)),
    };
    if ret.is_some() {
        return fail(format!("deque_out:{}:out-path", name), "a value was returned although a buffer was supplied");
    }
    let got: Vec<i32> = out.iter().map(|v| unsafe { v.assume_init() }).collect();
    let want: Vec<i32> = (0..len as i32).collect();
    if got != want || calls.get() != len as i32 {
        return fail(format!("deque_out:{}:placement", name), format!("{} (len {}, w {}) into a {} VecDeque out buffer: {:?} after {} calls, expected the call numbers {:?}", name, len, w, if wrapped { "wrapped" } else { "contiguous" }, got, calls.get(), want));
    }
    // returned path with a longer second series: the output follows the first series
    if matches!(c.drv, 2 | 3 | 5) {
        calls.set(0);
        let r: Option<Vec<i32>> = match c.drv {
            2 => x.rolling2_apply::<Vec<i32>, i32, _, _, _>(&y, w, |_, v| {
                let _ = v;
                tok()
            }, None),
            3 => x.rolling2_apply_idx::<Vec<i32>, i32, _, _, _>(&y, w, |_, _, _| tok(), None),
            _ => dq_in.rolling2_apply::<Vec<i32>, i32, _, _, _>(&y, w, |_, _| tok(), None),
        };
        match r {
            Some(v) if v == want && calls.get() == len as i32 => {},
            other => return fail(format!("second_longer:{}:output", name), format!("{} (len {}, second series {} longer, w {}) returned {:?} after {} calls, expected {:?}", name, len, c.step, w, other, calls.get(), want)),
        }
        // the same with an ndarray first series (owned, and a strided view of a longer parent), into a Vec
        // and into an ndarray result
        if c.drv != 5 {
            let owned = Array1::from_vec(x.clone());
            let parent = Array1::from_iter(x.iter().flat_map(|v| [*v, -5]));
            let view = parent.slice(s![..;2]);
            for kind in 0..4 {
                calls.set(0);
                let r: Option<Vec<i32>> = match (c.drv, kind) {
                    (2, 0) => owned.rolling2_apply::<Vec<i32>, i32, _, _, _>(&y, w, |_, _| tok(), None),
                    (2, 1) => view.rolling2_apply::<Vec<i32>, i32, _, _, _>(&y, w, |_, _| tok(), None),
                    (2, 2) => owned.rolling2_apply::<Array1<i32>, i32, _, _, _>(&y, w, |_, _| tok(), None).map(|a| a.to_vec()),
                    (2, _) => view.rolling2_apply::<Array1<i32>, i32, _, _, _>(&y, w, |_, _| tok(), None).map(|a| a.to_vec()),
                    (_, 0) => owned.rolling2_apply_idx::<Vec<i32>, i32, _, _, _>(&y, w, |_, _, _| tok(), None),
                    (_, 1) => view.rolling2_apply_idx::<Vec<i32>, i32, _, _, _>(&y, w, |_, _, _| tok(), None),
                    (_, 2) => owned.rolling2_apply_idx::<Array1<i32>, i32, _, _, _>(&y, w, |_, _, _| tok(), None).map(|a| a.to_vec()),
                    (_, _) => view.rolling2_apply_idx::<Array1<i32>, i32, _, _, _>(&y, w, |_, _, _| tok(), None).map(|a| a.to_vec()),
                };
                match r {
                    Some(v) if v.len() == len && v == want && calls.get() == len as i32 => {},
                    other => {
                        let shown = other.map(|v| (v.len(), v.into_iter().take(len).collect::<Vec<i32>>()));
                        return fail(
                            format!("second_longer:{}:ndarray-first:output", name),
                            format!("{} on an ndarray first series ({}; len {}, second series {} longer, w {}) returned (length, leading part) {:?} after {} calls, expected {:?}", name, ["owned -> Vec", "strided view -> Vec", "owned -> Array1", "strided view -> Array1"][kind], len, c.step, w, shown, calls.get(), want),
                        );
                    },
                }
            }
        }
        let r: Option<Vec<i32>> = x.rolling2_custom::<Vec<i32>, i32, _, _, _>(&y, w, |a: &[i32], b: &[i32]| if a.len() == b.len() { tok() } else { -1 - tok() }, None);
        calls.set(0);
        if r.as_ref() != Some(&(len as i32..2 * len as i32).collect::<Vec<i32>>()) && r.as_ref() != Some(&want) {
            return fail("second_longer:rolling2_custom:output", format!("rolling2_custom (len {}, second series {} longer, w {}) returned {:?}", len, c.step, w, r));
        }
    }
    obs.set_nontrivial(len >= 2 && wrapped);
    obs.class_if(wrapped, "out_deque_wrapped");
    Ok(())
}

fn small_scope(tier: Tier) -> impl Iterator<Item = DCase> {
    let max_len = tier.pick(9, 12);
    let mut v = vec![];
    for len in 0..=max_len {
        // windows 1..=len+3, plus the two ways of asking for an expanding window (usize::MAX and 2^63)
        // on a reduced matrix
        let mut windows: Vec<usize> = (1..=len + 3).collect();
        if len <= 6 {
            windows.push(usize::MAX);
            windows.push(1usize << 63);
        }
        for w in windows {
            for (k, drv) in DRIVERS.iter().enumerate() {
                for bk in Backend::all(len.wrapping_add(w).wrapping_add(k)) {
                    for ok in OutKind::ALL {
                        for out_buf in [false, true] {
                            if drv.always_buffer() && !out_buf {
                                continue;
                            }
                            if *drv == Drv::CustomIter && (out_buf || ok != OutKind::Vec) {
                                continue;
                            }
                            v.push(DCase { len, w, drv: *drv, bk, ok, out_buf });
                        }
                    }
                }
            }
        }
    }
    v.into_iter()
}

fn rand_case(tier: Tier) -> impl Strategy<Value = DCase> {
    let max = tier.pick(120, 300);
    (0usize..=max, any::<u16>(), 0usize..12, backend_strategy(), outkind_strategy(), any::<bool>(), any::<u8>()).prop_map(|(len, ws, d, bk, ok, out_buf, step)| {
        let drv = DRIVERS[d];
        let bk = match bk {
            Backend::NdView { .. } => Backend::NdView { step: VIEW_STEPS[step as usize % 5] },
            b => b,
        };
        DCase {
            len,
            w: 1 + idx(ws, len + 3),
            drv,
            bk,
            ok,
            out_buf: out_buf || drv.always_buffer(),
        }
    })
}

fn main() {
    let _ = Vec::<i32>::empty();
    let mut p = Property::new(
        "C02",
        "cases = (series length, window 1..=len+3, driver entry point {rolling_apply, rolling_apply_idx, rolling2_apply, rolling2_apply_idx, their *_to forms, rolling_custom, rolling_custom_to, rolling2_custom, rolling_custom_iter}, input backend {Vec, array, VecDeque rotations, ndarray owned / strided / reversed / mutable views, Arc-wrapped}, output container {Vec, VecDeque, Array1}, returned / caller-buffer path); data are distinct tokens; a recording, stateful callback returns its call number. Model: exactly len calls in position order; new element(s) x[i] (y[i]); removed element / start index Some(i-w+1) when i >= w-1 and None when i < min(w,len)-1 (the final position with w > len is unspecified for the removed argument); slice forms receive exactly x[max(0,i-w+1)..=i] of each series; output has length len and position i holds the token of call i. \
         EXHAUSTIVE for len 0..=9 (thorough 0..=12) x every window x every driver x every backend kind x output container x path (sub 'small_scope'); random for len up to 120 / 300; sub 'out_view_placement' (enumerated, len 0..=8 / 14) writes through strided / reversed ndarray out views inside a padded sentinel buffer, with the index-writing drivers and the two that fill the buffer through the iterator writer (rolling2_custom, rolling_custom on a VecDeque input). Non-trivial = len >= 2 and 2 <= w <= len (a removal is reported); distinct = distinct cells",
    )
    .assume("Polars inputs are exercised in the Polars binary of C07; Polars output through uset is documented as unsupported (DESIGN 5.7)");
    // (canary: the slice forms read through `uslice` of the real containers)
    p.add(canary(sub_enum("small_scope", small_scope, check_driver)));
    p.add(sub("random_cells", 20000, 400000, rand_case, check_driver));
    p.add(canary(sub_enum("out_view_placement", out_view_cases, check_out_view)));
    p.add(canary(sub_enum("deque_out_buffer_and_longer_second_series", deque_out_cases, check_deque_out)));
    main_for(p);
}
