//! C04 — rolling covariance, correlation and regressions equal per-window least squares.
use tvh::engine::*;
use tvh::gen::*;
use tvh::model::{Stat, Stat2};
use tvh::rollcheck::{check1, check2};

const INS: &[InT] = &[InT::F64, InT::OptF64, InT::I32, InT::OptI32, InT::F32, InT::I64];
const OUTS: &[OutT] = &[OutT::F64, OutT::F64, OutT::OptF64, OutT::F32];

fn main() {
    let mut p = Property::new(
        "C04",
        "cases = (pairs of equal-length series with independent null patterns, incl. exactly collinear / noisy-linear / constant ones; window 2..=len+2; min_periods omitted or 0..=w) per two-series entry point, and single series for the five trend statistics; every position compared with least squares from scratch on the pairwise-complete observations (centred two-pass sums), tolerance DESIGN 5.9 with the formula's own terms; windows with a constant regressor are not compared. \
         Non-trivial (two-series) = len > w, some compared window with >= 3 complete pairs, null patterns of the two series differ; (trend) = len > w with a null inside a full window; distinct = distinct serialised cases",
    )
    .assume("finite inputs; regression on a (numerically) constant regressor is undefined and not compared")
    .assume("tolerances: DESIGN 5.9; EPS floor band per 5.6 for corr / resid_std / resid_skew");
    let two = [
        Stat2::Cov,
        Stat2::Corr,
        Stat2::RegxAlpha,
        Stat2::RegxBeta,
        Stat2::RegxResidMean,
        Stat2::RegxResidStd,
        Stat2::RegxResidSkew,
        Stat2::RegxAllAlpha,
        Stat2::RegxAllBeta,
        Stat2::RegxAllSse,
    ];
    for st in two {
        p.add(sub(
            &format!("ts_v{}", st.name()),
            12000,
            500000,
            |tier| roll2_case(tier, 48, 300, 2),
            move |c: &Roll2Case, obs: &mut Obs| check2(c, st, obs),
        ));
        p.add(sub(
            &format!("long:ts_v{}", st.name()),
            8,
            300,
            |_| roll2_case_long(12000, 2),
            move |c: &Roll2Case, obs: &mut Obs| check2(c, st, obs),
        ));
    }
    let trend = [Stat::Reg, Stat::Tsf, Stat::RegSlope, Stat::RegIntercept, Stat::RegResidMean];
    for st in trend {
        p.add(sub(
            &format!("ts_v{}", st.name()),
            12000,
            500000,
            |tier| roll_case(tier, INS, OUTS, 48, 300, 2),
            move |c: &RollCase, obs: &mut Obs| check1(c, st, true, obs),
        ));
        p.add(sub(
            &format!("long:ts_v{}", st.name()),
            8,
            300,
            |_| roll_case_long(INS, 12000, 2),
            move |c: &RollCase, obs: &mut Obs| check1(c, st, true, obs),
        ));
    }
    main_for(p);
}
