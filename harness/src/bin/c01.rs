//! C01 — rolling moments and weighted averages equal from-scratch window evaluation.
use proptest::prelude::*;
use tvh::engine::*;
use tvh::gen::*;
use tvh::model::Stat;
use tvh::rollcheck::check1;

const VALID_INS: &[InT] = &InT::ALL;
const PLAIN_INS: &[InT] = &[InT::F64, InT::F32, InT::I32, InT::I64];
const OUTS: &[OutT] = &[OutT::F64, OutT::F64, OutT::F32, OutT::OptF64, OutT::I32, OutT::OptI32];
const DS: [f64; 10] = [0.25, 0.5, 0.75, 1.0, 1.25, 1.5, 1.9, 1.9999999, 2.0, 3.0];

fn null_free(mut c: RollCase) -> RollCase {
    for v in c.x.iter_mut() {
        if v.is_none() {
            *v = Some(0.0);
        }
    }
    c.class = format!("{}(nulls->0)", c.class);
    c
}

fn main() {
    let mut p = Property::new(
        "C01",
        "cases = (series from value classes x null patterns, window 1..=len+2, min_periods omitted or 0..=w, input element type, output element type, returned/out-buffer path) per entry point; \
         every position is compared with a from-scratch evaluation of its window. Non-trivial = len > w (at least one removal executed), at least one non-null output, and for the null-aware family on nullable inputs a null inside some window after the first removal; distinct = distinct serialised cases",
    )
    .assume("inputs are finite; plain family (ts_sum..ts_kurt, ts_fdiff) receives null-free data (DESIGN 5.1)")
    .assume("tolerance = condition-aware bound of DESIGN 5.9 (K=128), EPS variance floor accepted inside its rounding band (5.6)")
    .assume("f32 inputs use values whose window sums are exact in f32");
    let stats = [Stat::Sum, Stat::Mean, Stat::Ewm, Stat::Wma, Stat::Std, Stat::Var, Stat::Skew, Stat::Kurt];
    for st in stats {
        p.add(sub(
            &format!("ts_v{}", st.name()),
            12000,
            600000,
            |tier| roll_case(tier, VALID_INS, OUTS, 48, 400, 1),
            move |c: &RollCase, obs: &mut Obs| check1(c, st, true, obs),
        ));
        p.add(sub(
            &format!("ts_{}", st.name()),
            12000,
            600000,
            |tier| roll_case(tier, PLAIN_INS, OUTS, 48, 400, 1).prop_map(null_free),
            move |c: &RollCase, obs: &mut Obs| check1(c, st, false, obs),
        ));
        p.add(sub(
            &format!("long:ts_v{}", st.name()),
            12,
            600,
            |_| roll_case_long(VALID_INS, 20000, 1),
            move |c: &RollCase, obs: &mut Obs| check1(c, st, true, obs),
        ));
        p.add(sub(
            &format!("long:ts_{}", st.name()),
            12,
            600,
            |_| roll_case_long(PLAIN_INS, 20000, 1).prop_map(null_free),
            move |c: &RollCase, obs: &mut Obs| check1(c, st, false, obs),
        ));
    }
    p.add(sub(
        "ts_vfdiff",
        12000,
        600000,
        |tier| {
            (roll_case(tier, VALID_INS, OUTS, 48, 200, 1), 0usize..10).prop_map(|(mut c, k)| {
                c.p = DS[k];
                c
            })
        },
        |c: &RollCase, obs: &mut Obs| check1(c, Stat::Fdiff(c.p), true, obs),
    ));
    p.add(sub(
        "ts_fdiff",
        12000,
        600000,
        |tier| {
            (roll_case(tier, PLAIN_INS, OUTS, 48, 200, 1), 0usize..10).prop_map(|(mut c, k)| {
                c.p = DS[k];
                c.mp = Some(0);
                null_free(c)
            })
        },
        |c: &RollCase, obs: &mut Obs| check1(c, Stat::Fdiff(c.p), false, obs),
    ));
    main_for(p);
}
