//! C01 — rolling moments and weighted averages equal from-scratch window evaluation.
use proptest::prelude::*;
use tvh::engine::*;
use tvh::gen::*;
use tvh::model::Stat;
use tvh::rollcheck::check1;

const VALID_INS: &[InT] = &InT::ALL;
const PLAIN_INS: &[InT] = &[InT::F64, InT::F32, InT::I32, InT::I64];
const OUTS: &[OutT] = &[OutT::F64, OutT::F64, OutT::F32, OutT::OptF64, OutT::I32, OutT::OptI32];
const DS: [f64; 10] = [0.25, 0.5, 0.75, 1.0, 1.25, 1.5, 1.9, 1.9999999, 2.0, 3.0];

fn null_free(mut c: RollCase) -> RollCase {
    for v in c.x.iter_mut() {
        if v.is_none() {
            *v = Some(0.0);
        }
    }
    c.class = format!("{}(nulls->0)", c.class);
    c
}

/// Integer element types at their edges: a series of small non-negative integers in which one
/// element is the type minimum (or, mirrored, the type maximum among non-positive values), and unsigned
/// element types. Every window sum stays inside the element type, so sum / mean / extrema / moments
/// are defined by the textbook formula; an implementation that negates or squares in the element type
/// overflows here.
fn integer_edges(c: &RollCase, st: Stat, obs: &mut Obs) -> CheckResult {
    use tvh::model::expect_series;
    use tvh::rollcheck::compare_series;
    use tvh::sut;
    let len = c.x.len();
    let small: Vec<i64> = c.x.iter().map(|v| (v.unwrap_or(0.0).abs() as i64) % 1000).collect();
    let variant = (len + c.w + c.mp.unwrap_or(1)) % 4;
    let p = if len == 0 { 0 } else { (c.w * 7 + len) % len };
    let name = format!("edge:ts_{}{}", if c.tin.nullable() { "v" } else { "" }, st.name());
    let err = |e: String| Fail { sig: format!("{}:out-path", name), detail: e };
    let valid = c.tin.nullable();
    let (logical, got): (Series, Series) = match variant {
        0 | 1 => {
            let data: Vec<i32> = small
                .iter()
                .enumerate()
                .map(|(i, v)| match (variant, i == p) {
                    (0, true) => i32::MIN,
                    (0, false) => *v as i32,
                    (_, true) => i32::MAX,
                    (_, false) => -(*v as i32),
                })
                .collect();
            let r: Vec<f64> = if valid {
                sut::via_vec(len, c.out_buf, |buf| sut::roll_valid::<Vec<i32>, i32, Vec<f64>, f64>(&data, st, c.w, c.mp, buf)).map_err(err)?
            } else {
                sut::via_vec(len, c.out_buf, |buf| sut::roll_plain::<Vec<i32>, i32, Vec<f64>, f64>(&data, st, c.w, c.mp, buf)).map_err(err)?
            };
            (data.iter().map(|v| Some(*v as f64)).collect(), tvh::conv::normalize(r))
        },
        2 => {
            let data: Vec<u64> = small.iter().map(|v| *v as u64).collect();
            let r: Vec<f64> = if valid {
                sut::via_vec(len, c.out_buf, |buf| sut::roll_valid::<Vec<u64>, u64, Vec<f64>, f64>(&data, st, c.w, c.mp, buf)).map_err(err)?
            } else {
                sut::via_vec(len, c.out_buf, |buf| sut::roll_plain::<Vec<u64>, u64, Vec<f64>, f64>(&data, st, c.w, c.mp, buf)).map_err(err)?
            };
            (data.iter().map(|v| Some(*v as f64)).collect(), tvh::conv::normalize(r))
        },
        _ => {
            let data: Vec<usize> = small.iter().map(|v| *v as usize).collect();
            let r: Vec<f64> = if valid {
                sut::via_vec(len, c.out_buf, |buf| sut::roll_valid::<Vec<usize>, usize, Vec<f64>, f64>(&data, st, c.w, c.mp, buf)).map_err(err)?
            } else {
                sut::via_vec(len, c.out_buf, |buf| sut::roll_plain::<Vec<usize>, usize, Vec<f64>, f64>(&data, st, c.w, c.mp, buf)).map_err(err)?
            };
            (data.iter().map(|v| Some(*v as f64)).collect(), tvh::conv::normalize(r))
        },
    };
    let exp = expect_series(st, &logical, c.w, c.mp);
    compare_series(&name, &got, &exp, OutT::F64, len, obs).map_err(|f| Fail { sig: format!("{}:{}", name, f.sig), detail: format!("{} on {} elements: {}", name, ["i32 with i32::MIN", "i32 with i32::MAX", "u64", "usize"][variant], f.detail) })?;
    obs.class(["i32_with_type_min", "i32_with_type_max", "u64_elements", "usize_elements"][variant]);
    obs.set_nontrivial(len > c.w);
    Ok(())
}

/// Windows that hold tens of thousands of observations (the whole of a long series, or most of it):
/// counters, the small-sample corrections n(n-1), (n-1)^2.. and the weights n(n+1)/2 reach 10^9..10^10
/// there. The series is a pure function of (seed, n) - only the parameters are stored in the case - and
/// the from-scratch evaluation is made at 24 positions spread over the series plus its last three.
#[derive(Clone, Debug, serde::Serialize, serde::Deserialize)]
struct HugeCase {
    n: usize,
    seed: u32,
    wsel: u8,
    mpsel: u8,
    nulls: bool,
}

fn huge_case(_t: Tier) -> impl Strategy<Value = HugeCase> {
    (30_000usize..=70_000, any::<u32>(), any::<u8>(), any::<u8>(), any::<bool>()).prop_map(|(n, seed, wsel, mpsel, nulls)| HugeCase { n, seed, wsel, mpsel, nulls })
}

fn check_huge(h: &HugeCase, st: Stat, valid: bool, obs: &mut Obs) -> CheckResult {
    use tvh::model::expect_series_at;
    use tvh::rollcheck::{compare_series, eval_plain, eval_valid};
    let n = h.n;
    let mix = |i: usize| -> u64 {
        let mut z = (i as u64).wrapping_add(h.seed as u64).wrapping_mul(0x9E3779B97F4A7C15);
        z ^= z >> 29;
        z = z.wrapping_mul(0xBF58476D1CE4E5B9);
        z ^ (z >> 32)
    };
    // dyadic values in [-128, 128): sums of 70 000 of them and of their squares are exact in f64
    let x: Series = (0..n)
        .map(|i| {
            let z = mix(i);
            if valid && h.nulls && (z >> 40) % 11 == 0 {
                None
            } else {
                Some(((z % 2048) as f64 - 1024.0) / 8.0)
            }
        })
        .collect();
    let w = match h.wsel % 5 {
        0 => n,
        1 => n + 2,
        2 => n - n / 8,
        3 => n / 2 + 7,
        _ => 26_000 + (h.wsel as usize / 5) * 400,
    };
    let mp = match h.mpsel % 4 {
        0 => None,
        1 => Some(4),
        2 => Some(w / 3),
        _ => Some(w.min(n) - 5),
    };
    let c = RollCase {
        x,
        w,
        mp,
        tin: if valid && h.nulls { InT::OptF64 } else { InT::F64 },
        tout: OutT::F64,
        class: "huge_window".into(),
        out_buf: h.mpsel & 0x40 != 0,
        p: 0.0,
    };
    let name = format!("huge:{}{}", if valid { "ts_v" } else { "ts_" }, st.name());
    let got = if valid { eval_valid(&c, st) } else { eval_plain(&c, st) }.map_err(|e| Fail { sig: format!("{}:out-path", name), detail: e })?;
    let mut pos: Vec<usize> = (1..=24).map(|k| k * (n - 1) / 24).collect();
    pos.extend([n - 3, n - 2, 26_754, 26_755, 26_756, 46_340, 46_341, 46_342, 65_535, 65_536].into_iter().filter(|p| *p < n));
    let exp = expect_series_at(st, &c.x, w, mp, Some(&pos));
    compare_series(&name, &got, &exp, OutT::F64, n, obs)?;
    obs.class(["w=len", "w=len+2", "w=7/8 len", "w=len/2", "w=26000.."][(h.wsel % 5) as usize]);
    obs.set_nontrivial(got.iter().any(|g| g.is_some()));
    Ok(())
}

fn main() {
    let mut p = Property::new(
        "C01",
        "cases = (series from value classes x null patterns, window 1..=len+2, min_periods omitted or 0..=w, input element type, output element type, returned/out-buffer path) per entry point; \
         every position is compared with a from-scratch evaluation of its window; sub-properties price:* draw tick data at a price level (level / spread 1e3..1e7 with level jumps), huge_window:* series of 30 000..=70 000 elements (a pure function of the stored parameters) with windows holding most of the series, compared at ~34 positions (non-trivial there = some non-null output). Non-trivial = len > w (at least one removal executed), at least one non-null output, and for the null-aware family on nullable inputs a null inside some window after the first removal; distinct = distinct serialised cases",
    )
    .assume("inputs are finite; plain family (ts_sum..ts_kurt, ts_fdiff) receives null-free data (DESIGN 5.1)")
    .assume("tolerance = condition-aware bound of DESIGN 5.9 (K=128), EPS variance floor accepted inside its rounding band (5.6)")
    .assume("f32 inputs use values whose window sums are exact in f32");
    let stats = [Stat::Sum, Stat::Mean, Stat::Ewm, Stat::Wma, Stat::Std, Stat::Var, Stat::Skew, Stat::Kurt];
    for st in stats {
        p.add(sub(
            &format!("ts_v{}", st.name()),
            12000,
            600000,
            |tier| roll_case(tier, VALID_INS, OUTS, 48, 400, 1),
            move |c: &RollCase, obs: &mut Obs| check1(c, st, true, obs),
        ));
        p.add(sub(
            &format!("ts_{}", st.name()),
            12000,
            600000,
            |tier| roll_case(tier, PLAIN_INS, OUTS, 48, 400, 1).prop_map(null_free),
            move |c: &RollCase, obs: &mut Obs| check1(c, st, false, obs),
        ));
        p.add(sub(
            &format!("price:ts_v{}", st.name()),
            4000,
            200000,
            |tier| roll_case_of(tier, VALID_INS, OUTS, 48, 400, 1, &[13]),
            move |c: &RollCase, obs: &mut Obs| check1(c, st, true, obs),
        ));
        p.add(sub(
            &format!("price:ts_{}", st.name()),
            4000,
            200000,
            |tier| roll_case_of(tier, PLAIN_INS, OUTS, 48, 400, 1, &[13]).prop_map(null_free),
            move |c: &RollCase, obs: &mut Obs| check1(c, st, false, obs),
        ));
        p.add(sub(
            &format!("long:ts_v{}", st.name()),
            12,
            600,
            |_| roll_case_long(VALID_INS, 20000, 1),
            move |c: &RollCase, obs: &mut Obs| check1(c, st, true, obs),
        ));
        p.add(sub(
            &format!("long:ts_{}", st.name()),
            12,
            600,
            |_| roll_case_long(PLAIN_INS, 20000, 1).prop_map(null_free),
            move |c: &RollCase, obs: &mut Obs| check1(c, st, false, obs),
        ));
    }
    for st in stats {
        p.add(sub(&format!("huge_window:ts_v{}", st.name()), 1, 6, huge_case, move |h: &HugeCase, obs: &mut Obs| check_huge(h, st, true, obs)));
        p.add(sub(&format!("huge_window:ts_{}", st.name()), 1, 6, huge_case, move |h: &HugeCase, obs: &mut Obs| check_huge(h, st, false, obs)));
    }
    const EDGE_INS: &[InT] = &[InT::I32, InT::OptI32];
    for st in [Stat::Sum, Stat::Mean, Stat::Std, Stat::Wma] {
        p.add(sub(
            &format!("integer_edges:{}", st.name()),
            3000,
            100000,
            |tier| roll_case_of(tier, EDGE_INS, &[OutT::F64], 40, 200, 1, EXACT_CLASSES),
            move |c: &RollCase, obs: &mut Obs| integer_edges(c, st, obs),
        ));
    }
    p.add(sub(
        "ts_vfdiff",
        12000,
        600000,
        |tier| {
            (roll_case(tier, VALID_INS, OUTS, 48, 200, 1), 0usize..10).prop_map(|(mut c, k)| {
                c.p = DS[k];
                c
            })
        },
        |c: &RollCase, obs: &mut Obs| check1(c, Stat::Fdiff(c.p), true, obs),
    ));
    p.add(sub(
        "ts_fdiff",
        12000,
        600000,
        |tier| {
            (roll_case(tier, PLAIN_INS, OUTS, 48, 200, 1), 0usize..10).prop_map(|(mut c, k)| {
                c.p = DS[k];
                c.mp = Some(0);
                null_free(c)
            })
        },
        |c: &RollCase, obs: &mut Obs| check1(c, Stat::Fdiff(c.p), false, obs),
    ));
    main_for(p);
}
