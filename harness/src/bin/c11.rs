//! C11 — aggregations equal their textbook definitions over the non-null elements.
use proptest::prelude::*;
use serde::{Deserialize, Serialize};
use tevec::prelude::{TIter, Vec1View};
use tvh::conv::{materialize, InElem, OutElem};
use tvh::engine::{fail, main_for, sub, CheckResult, Obs, Property, Tier};
use tvh::gen::{idx, len_strategy, raw_pair, series_of, InT, OutT, Series};
use tvh::model::{compare, expect_agg, expect_agg2, Exp, Stat, Stat2, Tri};
use tvh::sut_agg as sa;

#[derive(Clone, Copy, Debug, PartialEq, Serialize, Deserialize)]
enum Enc {
    F64,
    OptF64,
    I32,
    OptI32,
    F32,
}

#[derive(Clone, Debug, Serialize, Deserialize)]
struct AggCase {
    x: Series,
    y: Series,
    enc: Enc,
    mp: usize,
    perm: Vec<u16>,
    src: u8,
    sel: u16,
}

fn agg_case(tier: Tier) -> impl Strategy<Value = AggCase> {
    agg_case_len(len_strategy(tier, 24, 200).boxed())
}

/// series longer than any block / chunk size an implementation might use (65..=400 elements)
fn agg_case_long(_tier: Tier) -> impl Strategy<Value = AggCase> {
    agg_case_len((65usize..=400).boxed())
}

fn agg_case_len(len: BoxedStrategy<usize>) -> impl Strategy<Value = AggCase> {
    (raw_pair(len), 0usize..5, any::<u16>(), any::<u8>(), any::<u16>(), any::<u64>()).prop_map(|(rp, e, ms, src, sel, pseed)| {
        let enc = [Enc::F64, Enc::OptF64, Enc::I32, Enc::OptI32, Enc::F32][e];
        let tin = match enc {
            Enc::F64 => InT::F64,
            Enc::OptF64 => InT::OptF64,
            Enc::I32 => InT::I32,
            Enc::OptI32 => InT::OptI32,
            Enc::F32 => InT::F32,
        };
        let (x, _) = series_of(&rp.a, tin);
        let (y, _) = series_of(&rp.b, tin);
        let len = x.len();
        // deterministic permutation keys derived inside the generator (shrinks with the seed)
        let mut s = pseed | 1;
        let perm: Vec<u16> = (0..len)
            .map(|_| {
                s ^= s << 13;
                s ^= s >> 7;
                s ^= s << 17;
                (s >> 20) as u16
            })
            .collect();
        AggCase {
            mp: idx(ms, len + 2),
            x,
            y,
            enc,
            perm,
            src,
            sel,
        }
    })
}

fn permuted(c: &AggCase) -> (Series, Series) {
    let mut order: Vec<usize> = (0..c.x.len()).collect();
    order.sort_by_key(|i| (c.perm[*i], *i));
    (order.iter().map(|i| c.x[*i]).collect(), order.iter().map(|i| c.y[*i]).collect())
}

fn nontrivial(c: &AggCase, obs: &mut Obs) {
    let valid: Vec<f64> = c.x.iter().filter_map(|v| *v).collect();
    let mut s = valid.clone();
    s.sort_by(|a, b| a.partial_cmp(b).unwrap());
    let tie = s.windows(2).any(|w| w[0] == w[1]);
    let null_not_first = c.x.iter().skip(1).any(|v| v.is_none());
    let nullable = matches!(c.enc, Enc::F64 | Enc::OptF64 | Enc::OptI32 | Enc::F32);
    obs.set_nontrivial(valid.len() >= 4 && tie && (null_not_first || !nullable));
    obs.class_if(c.x.is_empty(), "empty");
    obs.class_if(c.x.len() == 1, "singleton");
    obs.class_if(!c.x.is_empty() && valid.is_empty(), "all_null");
    obs.class_if(tie, "ties");
    obs.class(match c.enc {
        Enc::F64 => "f64",
        Enc::OptF64 => "option_f64",
        Enc::I32 => "i32",
        Enc::OptI32 => "option_i32",
        Enc::F32 => "f32",
    });
    obs.class(match c.src % 4 {
        0 => "source=owned_vec",
        1 => "source=titer",
        3 => "source=filtered_inexact_hint",
        _ => "source=vecdeque",
    });
}

/// the iterator source: owned Vec / borrowed titer / VecDeque
macro_rules! with_src {
    ($c:expr, $d:expr, |$it:ident| $body:expr) => {
        match $c.src % 4 {
            3 => {
                // a source whose size hint is only an upper bound (every second index of a doubled range)
                let v2 = $d.clone();
                let $it = (0..2 * v2.len()).filter(|i| i % 2 == 0).map(|i| v2[i / 2].clone());
                $body
            },
            0 => {
                let $it = $d.clone().into_iter();
                $body
            },
            1 => {
                let $it = $d.titer();
                $body
            },
            _ => {
                let dq: std::collections::VecDeque<_> = $d.iter().cloned().collect();
                let $it = dq.titer();
                let r = $body;
                r
            },
        }
    };
}

macro_rules! by_enc_nullable {
    ($c:expr, $f:ident, $($a:expr),*) => {
        match $c.enc {
            Enc::F64 => $f::<f64>($($a),*),
            Enc::OptF64 => $f::<Option<f64>>($($a),*),
            Enc::I32 => $f::<i32>($($a),*),
            Enc::OptI32 => $f::<Option<i32>>($($a),*),
            Enc::F32 => $f::<f32>($($a),*),
        }
    };
}

fn chk(name: &str, got: Option<f64>, exp: &Exp, obs: &mut Obs) -> CheckResult {
    match compare(got, exp, OutT::F64) {
        Ok(r) => {
            if !exp.band && !exp.ill {
                obs.ratio(r);
            }
            obs.compared += 1;
            Ok(())
        },
        Err(rel) => fail(format!("{}:{}", name, rel.split(' ').next().unwrap_or("")), format!("{}: {}", name, rel)),
    }
}

fn nan_opt(v: f64) -> Option<f64> {
    if v.is_nan() { None } else { Some(v) }
}

fn counts_typed<T>(c: &AggCase, x: &Series, _obs: &mut Obs) -> CheckResult
where
    T: InElem + OutElem + tevec::prelude::IsNone + PartialEq,
    T::Inner: PartialEq,
{
    let d: Vec<T> = materialize(x);
    let valid: Vec<f64> = x.iter().filter_map(|v| *v).collect();
    let n_valid = valid.len();
    let n_null = x.len() - n_valid;
    let cv = with_src!(c, d, |it| sa::count_valid(it));
    if cv != n_valid {
        return fail("count_valid", format!("count_valid = {}, {} valid elements", cv, n_valid));
    }
    let cn = with_src!(c, d, |it| sa::count_none(it));
    if cn != n_null {
        return fail("count_none", format!("count_none = {}, {} nulls", cn, n_null));
    }
    // value to count: an element of the series, a foreign value, or null
    let probe: Option<f64> = match c.sel % 4 {
        0 if n_null > 0 || x.is_empty() => None,
        1 | 2 if n_valid > 0 => Some(valid[idx(c.sel, n_valid)]),
        _ => Some(12345.0),
    };
    let is_nullable = T::from_logical(Some(1.0)).to_logical().is_some() && std::any::type_name::<T>() != "i32";
    if probe.is_some() || is_nullable {
        let pv = T::from_logical(probe);
        let got = with_src!(c, d, |it| sa::vcount_value(it, pv.clone()));
        let want = match probe {
            None => n_null,
            Some(p) => valid.iter().filter(|v| **v == p).count(),
        };
        if got != want {
            return fail("vcount_value", format!("vcount_value({:?}) = {}, definition gives {}", probe, got, want));
        }
        if let Some(p) = probe {
            let got = with_src!(c, d, |it| sa::count_value(it, pv.clone()));
            let want = valid.iter().filter(|v| **v == p).count();
            if got != want {
                return fail("count_value", format!("count_value({}) = {}, definition gives {}", p, got, want));
            }
        }
    }
    let vf = with_src!(c, d, |it| sa::vfirst(it)).and_then(|t| t.to_logical());
    if vf != valid.first().cloned() {
        return fail("vfirst", format!("vfirst = {:?}, first valid element is {:?}", vf, valid.first()));
    }
    let vl = with_src!(c, d, |it| sa::vlast(it)).and_then(|t| t.to_logical());
    if vl != valid.last().cloned() {
        return fail("vlast", format!("vlast = {:?}, last valid element is {:?}", vl, valid.last()));
    }
    let f = with_src!(c, d, |it| sa::first(it)).map(|t| t.to_logical());
    if f != x.first().cloned() {
        return fail("first", format!("first = {:?}, expected {:?}", f, x.first()));
    }
    let l = with_src!(c, d, |it| sa::last(it)).map(|t| t.to_logical());
    if l != x.last().cloned() {
        return fail("last", format!("last = {:?}, expected {:?}", l, x.last()));
    }
    Ok(())
}

fn check_counts(c: &AggCase, obs: &mut Obs) -> CheckResult {
    nontrivial(c, obs);
    by_enc_nullable!(c, counts_typed, c, &c.x, obs)?;
    let (px, _) = permuted(c);
    // counts are permutation invariant (first/last are not): re-run on the permuted series and
    // compare the counts through the same definitions
    let valid = px.iter().filter(|v| v.is_some()).count();
    if valid != c.x.iter().filter(|v| v.is_some()).count() {
        unreachable!()
    }
    by_enc_nullable!(c, counts_typed, c, &px, obs)
}

fn check_bool(c: &AggCase, obs: &mut Obs) -> CheckResult {
    nontrivial(c, obs);
    let b: Vec<bool> = c.x.iter().map(|v| v.map(|v| v > 0.0).unwrap_or(false)).collect();
    let ob: Vec<Option<bool>> = c.x.iter().map(|v| v.map(|v| v > 0.0)).collect();
    let any_w = b.iter().cloned().fold(false, |a, x| a || x);
    let all_w = b.iter().cloned().fold(true, |a, x| a && x);
    if with_src!(c, b, |it| sa::any(it)) != any_w {
        return fail("any", format!("any of {:?}", b));
    }
    if with_src!(c, b, |it| sa::all(it)) != all_w {
        return fail("all", format!("all of {:?}", b));
    }
    if with_src!(c, b, |it| sa::vany(it)) != any_w {
        return fail("vany", format!("vany of {:?}", b));
    }
    if with_src!(c, b, |it| sa::vall(it)) != all_w {
        return fail("vall", format!("vall of {:?}", b));
    }
    let valid: Vec<bool> = ob.iter().filter_map(|v| *v).collect();
    let vany_w = valid.iter().cloned().fold(false, |a, x| a || x);
    let vall_w = valid.iter().cloned().fold(true, |a, x| a && x);
    if with_src!(c, ob, |it| sa::vany(it)) != vany_w {
        return fail("vany:option", format!("vany of {:?}", ob));
    }
    if with_src!(c, ob, |it| sa::vall(it)) != vall_w {
        return fail("vall:option", format!("vall of {:?}", ob));
    }
    Ok(())
}

fn moments_typed<T>(c: &AggCase, x: &Series, tag: &str, obs: &mut Obs) -> CheckResult
where
    T: InElem + OutElem + tevec::prelude::IsNone,
    T::Inner: tevec::prelude::Number + OutElem,
{
    let d: Vec<T> = materialize(x);
    let mp = c.mp;
    let e_sum = expect_agg(Stat::Sum, x, 0);
    let e_mean = expect_agg(Stat::Mean, x, 0);
    let n_valid = x.iter().filter(|v| v.is_some()).count();
    // vsum: None when no valid element
    let vs = with_src!(c, d, |it| sa::vsum(it)).and_then(|v| v.to_logical());
    if n_valid == 0 {
        if vs.is_some() {
            return fail(format!("vsum{}:mask", tag), format!("vsum of no valid element = {:?}", vs));
        }
    } else {
        chk(&format!("vsum{}", tag), vs, &e_sum, obs)?;
    }
    chk(&format!("vmean{}", tag), nan_opt(with_src!(c, d, |it| sa::vmean(it))), &e_mean, obs)?;
    let (m, v) = with_src!(c, d, |it| sa::vmean_var(it, mp));
    let e_var = expect_agg(Stat::Var, x, mp);
    let e_meanmp = expect_agg(Stat::Mean, x, mp);
    chk(&format!("vmean_var.mean{}", tag), nan_opt(m), &e_meanmp, obs)?;
    chk(&format!("vmean_var.var{}", tag), nan_opt(v), &e_var, obs)?;
    chk(&format!("vvar{}", tag), nan_opt(with_src!(c, d, |it| sa::vvar(it, mp))), &e_var, obs)?;
    chk(&format!("vstd{}", tag), nan_opt(with_src!(c, d, |it| sa::vstd(it, mp))), &expect_agg(Stat::Std, x, mp), obs)?;
    chk(&format!("vskew{}", tag), nan_opt(with_src!(c, d, |it| sa::vskew(it, mp))), &expect_agg(Stat::Skew, x, mp), obs)?;
    chk(&format!("vkurt{}", tag), nan_opt(with_src!(c, d, |it| sa::vkurt(it, mp))), &expect_agg(Stat::Kurt, x, mp), obs)?;
    // extrema (exact)
    let valid: Vec<f64> = x.iter().filter_map(|v| *v).collect();
    let mx = valid.iter().cloned().fold(None, |a: Option<f64>, v| Some(a.map_or(v, |a| a.max(v))));
    let mn = valid.iter().cloned().fold(None, |a: Option<f64>, v| Some(a.map_or(v, |a| a.min(v))));
    let g = with_src!(c, d, |it| sa::vmax(it)).and_then(|v| v.to_logical());
    if g != mx {
        return fail(format!("vmax{}", tag), format!("vmax = {:?}, maximum of the valid elements is {:?}", g, mx));
    }
    let g = with_src!(c, d, |it| sa::vmin(it)).and_then(|v| v.to_logical());
    if g != mn {
        return fail(format!("vmin{}", tag), format!("vmin = {:?}, minimum of the valid elements is {:?}", g, mn));
    }
    Ok(())
}

fn check_moments(c: &AggCase, obs: &mut Obs) -> CheckResult {
    nontrivial(c, obs);
    by_enc_nullable!(c, moments_typed, c, &c.x, "", obs)?;
    // symmetric under permutation (the reference is permutation invariant, so checking the
    // permuted input against it is the invariance check)
    let (px, _) = permuted(c);
    by_enc_nullable!(c, moments_typed, c, &px, ":permuted", obs)
}

fn arg_typed<T>(c: &AggCase, x: &Series, _obs: &mut Obs) -> CheckResult
where
    T: InElem + OutElem + tevec::prelude::IsNone,
    T::Inner: PartialOrd,
{
    let d: Vec<T> = materialize(x);
    let mut amax: Option<(f64, usize)> = None;
    let mut amin: Option<(f64, usize)> = None;
    for (i, v) in x.iter().enumerate() {
        if let Some(v) = v {
            if amax.map_or(true, |(m, _)| *v > m) {
                amax = Some((*v, i));
            }
            if amin.map_or(true, |(m, _)| *v < m) {
                amin = Some((*v, i));
            }
        }
    }
    let g = with_src!(c, d, |it| sa::vargmax(it));
    if g != amax.map(|a| a.1) {
        return fail("vargmax", format!("vargmax of {:?} = {:?}, index of the first maximum is {:?}", x, g, amax.map(|a| a.1)));
    }
    let g = with_src!(c, d, |it| sa::vargmin(it));
    if g != amin.map(|a| a.1) {
        return fail("vargmin", format!("vargmin of {:?} = {:?}, index of the first minimum is {:?}", x, g, amin.map(|a| a.1)));
    }
    Ok(())
}

fn plain_typed<T>(c: &AggCase, obs: &mut Obs) -> CheckResult
where
    T: InElem + OutElem + tevec::prelude::Number,
{
    // plain AggBasic: null-free data (DESIGN 5.1)
    let x: Series = c.x.iter().map(|v| Some(v.unwrap_or(0.0))).collect();
    let d: Vec<T> = materialize(&x);
    let vals: Vec<f64> = x.iter().map(|v| v.unwrap()).collect();
    let n = vals.len();
    let e_sum = expect_agg(Stat::Sum, &x, 0);
    let s = with_src!(c, d, |it| sa::sum(it)).and_then(|v| v.to_logical());
    let (cnt, s2) = with_src!(c, d, |it| sa::n_sum(it));
    if cnt != n {
        return fail("n_sum:count", format!("n_sum counted {} of {} elements", cnt, n));
    }
    if n == 0 {
        if s.is_some() || s2.is_some() {
            return fail("sum:empty", "sum of an empty series is not None");
        }
        if sa::mean(d.clone().into_iter()).is_some() {
            return fail("mean:empty", "mean of an empty series is not None");
        }
    } else {
        chk("sum", s, &e_sum, obs)?;
        chk("n_sum", s2.and_then(|v| v.to_logical()), &e_sum, obs)?;
        chk("mean", with_src!(c, d, |it| sa::mean(it)), &expect_agg(Stat::Mean, &x, 0), obs)?;
    }
    let mx = vals.iter().cloned().fold(None, |a: Option<f64>, v| Some(a.map_or(v, |a| a.max(v))));
    let mn = vals.iter().cloned().fold(None, |a: Option<f64>, v| Some(a.map_or(v, |a| a.min(v))));
    if with_src!(c, d, |it| sa::max(it)).and_then(|v| v.to_logical()) != mx {
        return fail("max", format!("max of {:?}", vals));
    }
    if with_src!(c, d, |it| sa::min(it)).and_then(|v| v.to_logical()) != mn {
        return fail("min", format!("min of {:?}", vals));
    }
    let first_pos = |target: Option<f64>| target.and_then(|t| vals.iter().position(|v| *v == t));
    let g = with_src!(c, d, |it| sa::argmax(it));
    if g != first_pos(mx) {
        return fail("argmax", format!("argmax of {:?} = {:?}, first maximum at {:?}", vals, g, first_pos(mx)));
    }
    let g = with_src!(c, d, |it| sa::argmin(it));
    if g != first_pos(mn) {
        return fail("argmin", format!("argmin of {:?} = {:?}, first minimum at {:?}", vals, g, first_pos(mn)));
    }
    Ok(())
}

/// extrema, arg-extrema, first / last and counts on float series that contain infinite elements
/// (an infinite element is a valid, ordered value; sums and moments are not asked here)
fn inf_typed<T>(c: &AggCase, x: &Series, obs: &mut Obs) -> CheckResult
where
    T: InElem + OutElem + tevec::prelude::IsNone + PartialEq,
    T::Inner: tevec::prelude::Number + OutElem + PartialOrd + PartialEq,
{
    let d: Vec<T> = materialize(x);
    let valid: Vec<f64> = x.iter().filter_map(|v| *v).collect();
    let mx = valid.iter().cloned().fold(None, |a: Option<f64>, v| Some(a.map_or(v, |a| a.max(v))));
    let mn = valid.iter().cloned().fold(None, |a: Option<f64>, v| Some(a.map_or(v, |a| a.min(v))));
    let g = with_src!(c, d, |it| sa::vmax(it)).and_then(|v| v.to_logical());
    if g != mx {
        return fail("vmax:inf", format!("vmax of {:?} = {:?}, maximum of the valid elements is {:?}", x, g, mx));
    }
    let g = with_src!(c, d, |it| sa::vmin(it)).and_then(|v| v.to_logical());
    if g != mn {
        return fail("vmin:inf", format!("vmin of {:?} = {:?}, minimum of the valid elements is {:?}", x, g, mn));
    }
    arg_typed::<T>(c, x, obs)?;
    counts_typed::<T>(c, x, obs)
}

fn check_inf(c: &AggCase, obs: &mut Obs) -> CheckResult {
    // replace elements by +-inf according to the permutation keys: mode 0 every valid element +inf,
    // 1 every valid element -inf, otherwise a scattering of both
    let mode = c.sel % 5;
    let x: Series = c
        .x
        .iter()
        .zip(c.perm.iter())
        .map(|(v, k)| {
            v.map(|v| match (mode, k % 4) {
                (0, _) => f64::INFINITY,
                (1, _) => f64::NEG_INFINITY,
                (2, 0) | (2, 1) => f64::INFINITY,
                (3, 0) | (3, 1) => f64::NEG_INFINITY,
                (4, 0) => f64::INFINITY,
                (4, 1) => f64::NEG_INFINITY,
                _ => v,
            })
        })
        .collect();
    // infinities of one sign only: sum and mean (also masked) are that infinity by definition
    let n_pos = x.iter().flatten().filter(|v| **v == f64::INFINITY).count();
    let n_neg = x.iter().flatten().filter(|v| **v == f64::NEG_INFINITY).count();
    if (n_pos > 0) != (n_neg > 0) && c.enc != Enc::F32 {
        let want = if n_pos > 0 { f64::INFINITY } else { f64::NEG_INFINITY };
        let (gs, gm, gf): (Option<f64>, f64, f64) = match c.enc {
            Enc::OptF64 | Enc::OptI32 => {
                let d: Vec<Option<f64>> = materialize(&x);
                let all: Vec<bool> = vec![true; d.len()];
                (with_src!(c, d, |it| sa::vsum(it)), with_src!(c, d, |it| sa::vmean(it)), sa::vmean_filter(d.clone(), all, c.mp.min(1)))
            },
            _ => {
                let d: Vec<f64> = materialize(&x);
                let all: Vec<bool> = vec![true; d.len()];
                (with_src!(c, d, |it| sa::vsum(it)), with_src!(c, d, |it| sa::vmean(it)), sa::vmean_filter(d.clone(), all, c.mp.min(1)))
            },
        };
        if gs != Some(want) || gm != want || gf != want {
            return fail("sum_mean:one-signed-infinity", format!("series {:?}: vsum {:?}, vmean {:?}, vmean_filter(all selected) {:?}, the definition gives {:?}", x, gs, gm, gf, want));
        }
        obs.class("one_signed_infinity_sum");
    }
    // moments of a series that contains an infinite element are not finite numbers (the deviations from
    // an infinite or undefined mean are undefined): never 0 or any other finite value
    if n_pos + n_neg >= 1 && c.enc != Enc::F32 {
        let d: Vec<f64> = materialize(&x);
        let nv = d.iter().filter(|v| !v.is_nan()).count();
        let mp = c.mp.min(nv);
        let (_, var) = with_src!(c, d, |it| sa::vmean_var(it, mp));
        let sk = with_src!(c, d, |it| sa::vskew(it, mp));
        let ku = with_src!(c, d, |it| sa::vkurt(it, mp));
        let sd = with_src!(c, d, |it| sa::vstd(it, mp));
        for (name, v, need) in [("vvar", var, 2usize), ("vstd", sd, 2), ("vskew", sk, 3), ("vkurt", ku, 4)] {
            if nv >= need && v.is_finite() {
                return fail(format!("{}:infinite-element", name), format!("{} of {:?} (min_periods {}) = {}, a finite number although the series contains an infinite element", name, x, mp, v));
            }
        }
        obs.class("moments_with_infinite_element");
    }
    let n_inf = x.iter().flatten().filter(|v| v.is_infinite()).count();
    obs.set_nontrivial(n_inf >= 1 && x.len() >= 2);
    obs.class_if(mode <= 1 && n_inf >= 1, "every_valid_element_infinite");
    match c.enc {
        Enc::F32 => inf_typed::<f32>(c, &x, obs),
        Enc::OptF64 | Enc::OptI32 => inf_typed::<Option<f64>>(c, &x, obs),
        _ => inf_typed::<f64>(c, &x, obs),
    }
}

/// Integer series whose values (up to +-2.1e9) fit the element type while their sums do not: every
/// aggregation whose RESULT is a float (mean, masked mean, variance .. kurtosis, covariance,
/// correlation) is still defined by the textbook formula on those values, and extrema / positions are
/// exact. The element-typed sums (vsum, sum, n_sum, n_vsum_filter) are not asked: their result type
/// cannot hold the value.
fn large_int_typed<T>(c: &AggCase, obs: &mut Obs) -> CheckResult
where
    T: InElem + OutElem + tevec::prelude::IsNone + PartialEq,
    T::Inner: tevec::prelude::Number + OutElem + PartialOrd + PartialEq,
    T::Cast<f64>: OutElem,
{
    // scale the (integer-valued, |v| <= ~4.2e6 or smaller) series up to the i32 range
    let peak = c.x.iter().chain(c.y.iter()).flatten().fold(1.0f64, |m, v| m.max(v.abs()));
    let k = (2_100_000_000.0 / peak).floor().max(1.0);
    let big = |s: &Series| -> Series { s.iter().map(|v| v.map(|v| (v * k).round())).collect() };
    let (x, y) = (big(&c.x), big(&c.y));
    let d: Vec<T> = materialize(&x);
    let e: Vec<T> = materialize(&y);
    let mp = c.mp;
    chk("vmean:large-int", nan_opt(with_src!(c, d, |it| sa::vmean(it))), &expect_agg(Stat::Mean, &x, 0), obs)?;
    let (m, v) = with_src!(c, d, |it| sa::vmean_var(it, mp));
    chk("vmean_var.mean:large-int", nan_opt(m), &expect_agg(Stat::Mean, &x, mp), obs)?;
    chk("vmean_var.var:large-int", nan_opt(v), &expect_agg(Stat::Var, &x, mp), obs)?;
    chk("vstd:large-int", nan_opt(with_src!(c, d, |it| sa::vstd(it, mp))), &expect_agg(Stat::Std, &x, mp), obs)?;
    chk("vskew:large-int", nan_opt(with_src!(c, d, |it| sa::vskew(it, mp))), &expect_agg(Stat::Skew, &x, mp), obs)?;
    chk("vkurt:large-int", nan_opt(with_src!(c, d, |it| sa::vkurt(it, mp))), &expect_agg(Stat::Kurt, &x, mp), obs)?;
    let g = sa::vcov(d.clone(), e.clone(), mp).to_logical();
    chk("vcov:large-int", g, &expect_agg2(Stat2::Cov, &x, &y, mp), obs)?;
    let g = with_src!(c, d, |it| sa::vcorr_pearson(it, e.clone(), mp));
    chk("vcorr_pearson:large-int", nan_opt(g), &expect_agg2(Stat2::Corr, &x, &y, mp), obs)?;
    // masked mean
    let mask: Vec<Option<bool>> = c.y.iter().map(|v| v.map(|v| v > 0.0)).collect();
    let sel: Series = x.iter().zip(mask.iter()).map(|(v, m)| if *m == Some(true) { *v } else { None }).collect();
    chk("vmean_filter:large-int", nan_opt(sa::vmean_filter(d.clone(), mask.clone(), mp)), &expect_agg(Stat::Mean, &sel, mp), obs)?;
    inf_typed::<T>(c, &x, obs)?;
    let valid: Vec<f64> = x.iter().filter_map(|v| *v).collect();
    let total: f64 = valid.iter().sum();
    obs.set_nontrivial(valid.len() >= 2 && total.abs() > i32::MAX as f64);
    obs.class_if(total.abs() > i32::MAX as f64, "sum_exceeds_i32");
    Ok(())
}

fn check_large_int(c: &AggCase, obs: &mut Obs) -> CheckResult {
    if c.x.iter().chain(c.y.iter()).flatten().any(|v| v.fract() != 0.0) {
        obs.class("not_integer_valued_skipped");
        return Ok(());
    }
    match c.enc {
        Enc::I32 => large_int_typed::<i32>(c, obs)?,
        _ => large_int_typed::<Option<i32>>(c, obs)?,
    }
    // the plain mean on null-free data
    let peak = c.x.iter().flatten().fold(1.0f64, |m, v| m.max(v.abs()));
    let k = (2_100_000_000.0 / peak).floor().max(1.0);
    let x: Series = c.x.iter().map(|v| Some((v.unwrap_or(0.0) * k).round())).collect();
    let d: Vec<i32> = materialize(&x);
    if !d.is_empty() {
        chk("mean:large-int", with_src!(c, d, |it| sa::mean(it)), &expect_agg(Stat::Mean, &x, 0), obs)?;
    }
    Ok(())
}

fn check_extrema(c: &AggCase, obs: &mut Obs) -> CheckResult {
    nontrivial(c, obs);
    by_enc_nullable!(c, arg_typed, c, &c.x, obs)?;
    match c.enc {
        Enc::I32 | Enc::OptI32 => plain_typed::<i32>(c, obs),
        Enc::F32 => plain_typed::<f32>(c, obs),
        _ => plain_typed::<f64>(c, obs),
    }
}

fn filter_typed<T>(c: &AggCase, obs: &mut Obs) -> CheckResult
where
    T: InElem + OutElem + tevec::prelude::IsNone,
    T::Inner: tevec::prelude::Number + OutElem,
{
    let d: Vec<T> = materialize(&c.x);
    // mask from y: null mask entries exclude; true when y > 0
    let mask: Vec<Option<bool>> = c.y.iter().map(|v| v.map(|v| v > 0.0)).collect();
    let sel: Series = c.x.iter().zip(mask.iter()).map(|(v, m)| if *m == Some(true) { *v } else { None }).collect();
    let n_sel = sel.iter().filter(|v| v.is_some()).count();
    let e_sum = expect_agg(Stat::Sum, &sel, 0);
    let (n, s) = sa::n_vsum_filter(d.clone(), mask.clone());
    if n != n_sel {
        return fail("n_vsum_filter:count", format!("n_vsum_filter counted {}, {} selected valid elements", n, n_sel));
    }
    if n_sel == 0 {
        if s.to_logical() != Some(0.0) {
            return fail("n_vsum_filter:empty-sum", format!("n_vsum_filter of no selected element returned sum {:?}", s.to_logical()));
        }
    } else {
        chk("n_vsum_filter", s.to_logical(), &e_sum, obs)?;
    }
    let s2 = sa::n_sum_filter(d.clone(), mask.clone()).and_then(|v| v.to_logical());
    if n_sel == 0 {
        if s2.is_some() {
            return fail("n_sum_filter:mask", "n_sum_filter of no selected element is not None");
        }
    } else {
        chk("n_sum_filter", s2, &e_sum, obs)?;
    }
    let g = sa::vmean_filter(d.clone(), mask.clone(), c.mp);
    let e = expect_agg(Stat::Mean, &sel, c.mp);
    chk("vmean_filter", nan_opt(g), &e, obs)?;
    // plain bool mask
    let bmask: Vec<bool> = mask.iter().map(|m| *m == Some(true)).collect();
    let (n, _) = sa::n_vsum_filter(d.clone(), bmask);
    if n != n_sel {
        return fail("n_vsum_filter:bool-mask", "count with a plain bool mask");
    }
    obs.class_if(n_sel == 0 && !c.x.is_empty(), "nothing_selected");
    Ok(())
}

fn check_filter(c: &AggCase, obs: &mut Obs) -> CheckResult {
    nontrivial(c, obs);
    by_enc_nullable!(c, filter_typed, c, obs)
}

fn two_typed<T>(c: &AggCase, x: &Series, y: &Series, tag: &str, obs: &mut Obs) -> CheckResult
where
    T: InElem + OutElem + tevec::prelude::IsNone,
    T::Inner: tevec::prelude::Number,
    T::Cast<f64>: OutElem,
{
    let a: Vec<T> = materialize(x);
    let b: Vec<T> = materialize(y);
    let g = sa::vcov(a.clone(), b.clone(), c.mp).to_logical();
    chk(&format!("vcov{}", tag), g, &expect_agg2(Stat2::Cov, x, y, c.mp), obs)?;
    let g = with_src!(c, a, |it| sa::vcorr_pearson(it, b.clone(), c.mp));
    chk(&format!("vcorr_pearson{}", tag), nan_opt(g), &expect_agg2(Stat2::Corr, x, y, c.mp), obs)?;
    Ok(())
}

fn check_two(c: &AggCase, obs: &mut Obs) -> CheckResult {
    nontrivial(c, obs);
    by_enc_nullable!(c, two_typed, c, &c.x, &c.y, "", obs)?;
    let (px, py) = permuted(c);
    by_enc_nullable!(c, two_typed, c, &px, &py, ":permuted", obs)
}

fn main() {
    let _ = Tri::Any;
    let mut p = Property::new(
        "C11",
        "cases = (pair of series of length 0..=24 (thorough ..=200; `long:` sub-properties 65..=400 in both tiers) from all value classes (incl. constant, heavy ties) x null patterns (incl. all-null), element type f64 / Option<f64> / i32 / Option<i32> / f32, min_periods 0..=len+1, iterator source {owned Vec, borrowed titer, VecDeque, a filtered source whose size hint is only an upper bound}, a permutation, a probe value) per function group; oracle = textbook definition on the non-null (pairwise-complete) elements with the null law 'null exactly when valid count < max(min_periods, intrinsic minimum) or the statistic is undefined', tolerance DESIGN 5.9 (H = 0) and EPS band 5.6; symmetric functions are re-evaluated on a permutation of the input against the same (permutation-invariant) reference. \
         Non-trivial = >= 4 valid elements, a tie, and (for nullable element types) a null not in first position; distinct = distinct serialised cases",
    )
    .assume("plain AggBasic functions receive null-free data (DESIGN 5.1)")
    .assume("f32 inputs use values whose sums are exact in f32")
    .assume("infinite elements are generated for extrema / arg-extrema / first / last / counts only (sums and moments of infinite data are outside the property, DESIGN 5.2)");
    p.add(sub("counts_first_last", 12000, 400000, agg_case, check_counts));
    p.add(sub("any_all", 6000, 200000, agg_case, check_bool));
    p.add(sub("sum_mean_moments_extrema", 20000, 600000, agg_case, check_moments));
    p.add(sub("arg_extrema_plain", 12000, 400000, agg_case, check_extrema));
    p.add(sub("masked_sum_mean", 12000, 400000, agg_case, check_filter));
    p.add(sub("cov_corr", 12000, 400000, agg_case, check_two));
    p.add(sub("large_integers", 6000, 200000, agg_case, check_large_int));
    p.add(sub("extrema_with_infinities", 6000, 200000, agg_case, check_inf));
    p.add(sub("long:sum_mean_moments_extrema", 1500, 40000, agg_case_long, check_moments));
    p.add(sub("long:masked_sum_mean", 800, 20000, agg_case_long, check_filter));
    p.add(sub("long:cov_corr", 800, 20000, agg_case_long, check_two));
    main_for(p);
}
