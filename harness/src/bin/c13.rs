//! C13 — element-wise mapping operations follow their positional definitions.
use proptest::prelude::*;
use serde::{Deserialize, Serialize};
use tevec::prelude::{MapValidVec, Vec1View};
use tvh::backends::{with_backend, Backend, ViewFn};
use tvh::conv::{materialize, normalize, InElem, OutElem};
use tvh::engine::*;
use tvh::gen::*;
use tvh::model_map as mm;
use tvh::sut_map as sm;

#[derive(Clone, Copy, Debug, PartialEq, Serialize, Deserialize)]
enum Enc {
    F64,
    OptF64,
    I32,
}

#[derive(Clone, Copy, Debug, PartialEq, Serialize, Deserialize)]
enum Op {
    Shift,
    VShift,
    VDiff,
    VPct,
    FFill,
    BFill,
    FFillMask,
    BFillMask,
    Fill,
    FillMask,
    Clip,
    Abs,
    VAbs,
}

#[derive(Clone, Debug, Serialize, Deserialize)]
struct MapCase {
    x: Series,
    enc: Enc,
    n: i32,
    fill: Option<f64>,
    lo: Option<f64>,
    hi: Option<f64>,
    mask: u8,
    bk: Backend,
}

fn lag_of(len: usize, mode: u8, sel: u16) -> i32 {
    match mode % 16 {
        0 => i32::MIN,
        1 => i32::MAX,
        2 => 0,
        3 => len as i32,
        4 => -(len as i32),
        5 => 1,
        6 => -1,
        _ => idx(sel, 2 * len + 7) as i32 - (len as i32 + 3),
    }
}

fn map_case(tier: Tier) -> impl Strategy<Value = MapCase> {
    (
        raw_series(len_strategy(tier, 24, 120)),
        0u8..3,
        any::<u8>(),
        any::<u16>(),
        any::<u8>(),
        (any::<u8>(), any::<i16>(), any::<i16>()),
        any::<u8>(),
        backend_strategy(),
    )
        .prop_map(|(rs, e, lm, ls, fs, (bm, b1, b2), mask, bk)| {
            let enc = [Enc::F64, Enc::OptF64, Enc::I32][e as usize];
            let (x, _) = series_of(
                &rs,
                match enc {
                    Enc::F64 => InT::F64,
                    Enc::OptF64 => InT::OptF64,
                    Enc::I32 => InT::I32,
                },
            );
            let n = lag_of(x.len(), lm, ls);
            let fill = match fs % 4 {
                0 => None,
                1 => Some(0.0),
                _ => Some((fs as f64) - 100.0),
            };
            // bounds in every order relation to the data, incl. null bounds
            let scale = x.iter().filter_map(|v| *v).fold(1.0f64, |m, v| m.max(v.abs()));
            let mkb = |b: i16| ((b as f64) / 32768.0 * scale * 1.5).round();
            let (lo, hi) = match bm % 8 {
                0 => (None, None),
                1 => (Some(mkb(b1)), None),
                2 => (None, Some(mkb(b2))),
                3 => (Some(mkb(b1).max(mkb(b2))), Some(mkb(b1).min(mkb(b2)))), // possibly lo > hi
                _ => (Some(mkb(b1).min(mkb(b2))), Some(mkb(b1).max(mkb(b2)))),
            };
            MapCase {
                x,
                enc,
                n,
                fill,
                lo,
                hi,
                mask,
                bk,
            }
        })
}

fn masked_of(x: &Series, kind: u8) -> Vec<bool> {
    x.iter()
        .map(|v| match kind % 4 {
            0 => v.is_none(),
            1 => v.map(|v| v < 0.0).unwrap_or(false),
            2 => true,
            _ => false,
        })
        .collect()
}

fn mask_fn<T: OutElem>(kind: u8) -> impl Fn(&T) -> bool {
    move |t: &T| {
        let v = t.to_logical();
        match kind % 4 {
            0 => v.is_none(),
            1 => v.map(|v| v < 0.0).unwrap_or(false),
            2 => true,
            _ => false,
        }
    }
}

struct DiffFn<T> {
    n: i32,
    fill: Option<T>,
}
impl<T> ViewFn<T> for DiffFn<T>
where
    T: tevec::prelude::IsNone + Clone + std::ops::Sub<Output = T> + tevec::prelude::Zero + OutElem,
{
    type Out = (Series, &'static str);
    fn call<V: Vec1View<T>>(&mut self, v: &V, label: &'static str) -> Self::Out {
        let it = v.vdiff(self.n, self.fill.clone());
        (normalize(Iterator::collect::<Vec<T>>(it)), label)
    }
}
struct PctFn {
    n: i32,
}
impl<T> ViewFn<T> for PctFn
where
    T: tevec::prelude::IsNone + Clone + tevec::prelude::Cast<f64>,
{
    type Out = (Series, &'static str);
    fn call<V: Vec1View<T>>(&mut self, v: &V, label: &'static str) -> Self::Out {
        let it = v.vpct_change(self.n);
        (normalize(Iterator::collect::<Vec<f64>>(it)), label)
    }
}

fn same(a: &Series, b: &Series, ulps: f64) -> Option<usize> {
    if a.len() != b.len() {
        return Some(usize::MAX);
    }
    for i in 0..a.len() {
        match (a[i], b[i]) {
            (None, None) => {},
            (Some(p), Some(q)) => {
                if p != q && !((p - q).abs() <= ulps * f64::EPSILON * q.abs().max(p.abs())) {
                    return Some(i);
                }
            },
            _ => return Some(i),
        }
    }
    None
}

fn cmp(name: &str, got: &Series, exp: &Series, ulps: f64, c: &MapCase) -> CheckResult {
    match same(got, exp, ulps) {
        None => Ok(()),
        Some(usize::MAX) => fail(format!("{}:len", name), format!("{}: {} items for {} input elements", name, got.len(), c.x.len())),
        Some(i) => fail(
            format!("{}:value", name),
            format!("{}(n={}, fill={:?}, lo={:?}, hi={:?}) position {}: got {:?}, definition gives {:?}", name, c.n, c.fill, c.lo, c.hi, i, got[i], exp[i]),
        ),
    }
}

fn run_typed<T>(c: &MapCase, op: Op, obs: &mut Obs) -> CheckResult
where
    T: InElem + OutElem + tevec::prelude::IsNone + Clone,
    T::Inner: tevec::prelude::Number,
{
    let d: Vec<T> = materialize(&c.x);
    let fill_t: Option<T> = c.fill.map(|f| T::from_logical(Some(f)));
    let x = &c.x;
    let n = c.n as i64;
    match op {
        Op::VShift => {
            let fill = if c.enc == Enc::I32 { Some(fill_t.clone().unwrap_or(T::from_logical(Some(0.0)))) } else { fill_t.clone() };
            let exp = mm::shift(x, n, fill.as_ref().and_then(|f| f.to_logical()));
            cmp("vshift", &normalize(sm::vshift(&d, c.n, fill)), &exp, 0.0, c)
        },
        Op::FFill | Op::BFill => {
            if c.enc == Enc::I32 {
                // no nulls to fill; a default that is never used must not matter
                let got = if op == Op::FFill { sm::ffill(&d, fill_t.clone()) } else { sm::bfill(&d, fill_t.clone()) };
                return cmp(if op == Op::FFill { "ffill" } else { "bfill" }, &normalize(got), x, 0.0, c);
            }
            let m = masked_of(x, 0);
            let def = fill_t.as_ref().and_then(|f| f.to_logical());
            if op == Op::FFill {
                cmp("ffill", &normalize(sm::ffill(&d, fill_t.clone())), &mm::ffill_mask(x, &m, def), 0.0, c)
            } else {
                cmp("bfill", &normalize(sm::bfill(&d, fill_t.clone())), &mm::bfill_mask(x, &m, def), 0.0, c)
            }
        },
        Op::FFillMask | Op::BFillMask => {
            let m = masked_of(x, c.mask);
            let need_default = c.enc == Enc::I32;
            let fill = if need_default { Some(fill_t.clone().unwrap_or(T::from_logical(Some(0.0)))) } else { fill_t.clone() };
            let def = fill.as_ref().and_then(|f| f.to_logical());
            if op == Op::FFillMask {
                cmp("ffill_mask", &normalize(sm::ffill_mask(&d, mask_fn::<T>(c.mask), fill)), &mm::ffill_mask(x, &m, def), 0.0, c)
            } else {
                cmp("bfill_mask", &normalize(sm::bfill_mask(&d, mask_fn::<T>(c.mask), fill)), &mm::bfill_mask(x, &m, def), 0.0, c)
            }
        },
        Op::Fill => {
            let v = fill_t.clone().unwrap_or(T::from_logical(if c.enc == Enc::I32 { Some(0.0) } else { None }));
            let m = masked_of(x, 0);
            cmp("fill", &normalize(sm::fill(&d, v.clone())), &mm::fill_mask(x, &m, v.to_logical()), 0.0, c)
        },
        Op::FillMask => {
            let v = fill_t.clone().unwrap_or(T::from_logical(if c.enc == Enc::I32 { Some(0.0) } else { None }));
            let m = masked_of(x, c.mask);
            cmp("fill_mask", &normalize(sm::fill_mask(&d, mask_fn::<T>(c.mask), v.clone())), &mm::fill_mask(x, &m, v.to_logical()), 0.0, c)
        },
        Op::Clip => {
            if c.enc == Enc::I32 && (c.lo.is_none() || c.hi.is_none()) {
                // an integer bound cannot be null
                obs.class("skipped:null_bound_for_int");
                return Ok(());
            }
            let lo = T::from_logical(c.lo);
            let hi = T::from_logical(c.hi);
            let got = normalize(sm::vclip(&d, lo.clone(), hi.clone()));
            let ordered = match (c.lo, c.hi) {
                (Some(l), Some(h)) => l <= h,
                _ => true,
            };
            if ordered {
                cmp("vclip", &got, &mm::clip(x, c.lo, c.hi), 0.0, c)?;
                // idempotence and containment
                let again = normalize(sm::vclip(&materialize::<T>(&got), lo, hi));
                if same(&again, &got, 0.0).is_some() {
                    return fail("vclip:idempotence", format!("vclip(lo={:?},hi={:?}) applied twice differs from once", c.lo, c.hi));
                }
                for (i, g) in got.iter().enumerate() {
                    if let Some(g) = g {
                        if c.lo.map(|l| *g < l).unwrap_or(false) || c.hi.map(|h| *g > h).unwrap_or(false) {
                            return fail("vclip:containment", format!("vclip result {} at {} outside [{:?},{:?}]", g, i, c.lo, c.hi));
                        }
                    }
                }
                obs.class("clip_ordered_bounds");
                Ok(())
            } else {
                // lower > upper: only per-element behaviour, nulls stay null, length preserved
                if got.len() != x.len() {
                    return fail("vclip:len", "length changed");
                }
                for i in 0..x.len() {
                    match (x[i], got[i]) {
                        (None, None) => {},
                        (Some(v), Some(g)) if g == v || Some(g) == c.lo || Some(g) == c.hi => {},
                        _ => return fail("vclip:value", format!("vclip with lo>hi at {}: {:?} -> {:?}", i, x[i], got[i])),
                    }
                }
                obs.class("clip_reversed_bounds");
                Ok(())
            }
        },
        Op::VAbs => {
            if c.enc == Enc::I32 {
                obs.class("int");
            }
            cmp("vabs", &normalize(sm::vabs(&d)), &mm::abs(x), 0.0, c)
        },
        _ => unreachable!(),
    }
}

/// a NaN produced by the arithmetic itself (inf - inf, inf / inf) is the null of the float encoding
fn nan_is_null(s: Series) -> Series {
    s.into_iter().map(|v| v.filter(|x| !x.is_nan())).collect()
}

fn run_numeric<T>(c: &MapCase, op: Op, obs: &mut Obs) -> CheckResult
where
    T: InElem + OutElem + tevec::prelude::Number + tevec::prelude::Cast<f64>,
{
    let d: Vec<T> = materialize(&c.x);
    let x = &c.x;
    let n = c.n as i64;
    let null_fill = T::from_logical(if c.enc == Enc::I32 { Some(0.0) } else { None });
    match op {
        Op::Shift => {
            // plain shift is not null-aware but purely positional, so any data may be used
            let fill = c.fill.map(|f| T::from_logical(Some(f))).unwrap_or(null_fill);
            cmp("shift", &normalize(sm::shift(&d, c.n, fill.clone())), &mm::shift(x, n, fill.to_logical()), 0.0, c)
        },
        Op::Abs => {
            let nf: Series = x.iter().map(|v| Some(v.unwrap_or(0.0))).collect();
            let dd: Vec<T> = materialize(&nf);
            cmp("abs", &normalize(sm::abs(&dd)), &mm::abs(&nf), 0.0, c)
        },
        Op::VDiff => {
            let fill: Option<T> = match (c.fill, c.enc) {
                (Some(f), _) => Some(T::from_logical(Some(f))),
                (None, Enc::I32) => Some(T::from_logical(Some(0.0))),
                (None, _) => None,
            };
            let (got, label) = with_backend(c.bk, &d, T::from_logical(Some(55.0)), &mut DiffFn { n: c.n, fill: fill.clone() });
            obs.class(label);
            cmp("vdiff", &got, &nan_is_null(mm::diff(x, n, fill.and_then(|f| f.to_logical()))), 0.0, c)
        },
        Op::VPct => {
            let (got, label) = with_backend(c.bk, &d, T::from_logical(Some(55.0)), &mut PctFn { n: c.n });
            obs.class(label);
            cmp("vpct_change", &got, &nan_is_null(mm::pct_change(x, n)), 2.0, c)
        },
        _ => unreachable!(),
    }
}

fn check(c: &MapCase, op: Op, obs: &mut Obs) -> CheckResult {
    let len = c.x.len();
    let na = c.n.unsigned_abs() as usize;
    let near_null = (0..len).any(|i| c.x[i].is_none() && (i < na || i + na >= len));
    let lagged = matches!(op, Op::Shift | Op::VShift | Op::VDiff | Op::VPct);
    if lagged {
        obs.set_nontrivial((na >= 1 && na < len && near_null) || (na >= len && len > 0) || (c.fill.is_some() && c.n > 0 && len > 0));
        obs.class_if(na >= len, "lag>=len");
        obs.class_if(c.n == 0, "lag=0");
        obs.class_if(c.n == i32::MIN || c.n == i32::MAX, "lag=i32_extreme");
    } else {
        obs.set_nontrivial(len >= 2 && c.x.iter().any(|v| v.is_none()) && c.x.iter().any(|v| v.is_some()) || (c.enc == Enc::I32 && len >= 2));
    }
    obs.class(match c.enc {
        Enc::F64 => "enc_f64",
        Enc::OptF64 => "enc_option_f64",
        Enc::I32 => "enc_i32",
    });
    match op {
        Op::Shift | Op::Abs | Op::VDiff | Op::VPct => match c.enc {
            Enc::I32 => run_numeric::<i32>(c, op, obs),
            // Option<f64> has no Sub / Number: these four are offered for plain numeric types
            _ => {
                let mut c2 = c.clone();
                c2.enc = Enc::F64;
                if matches!(op, Op::VDiff | Op::VPct) && c.mask & 0xC0 == 0x40 {
                    // infinite and near-overflow elements: x - y and x / y - 1 are still defined element
                    // by element (inf - inf and inf / inf are nulls, a finite value over inf is -1)
                    for (i, v) in c2.x.iter_mut().enumerate() {
                        if v.is_some() {
                            match (i * 3 + c.mask as usize) % 7 {
                                0 => *v = Some(f64::INFINITY),
                                1 => *v = Some(f64::NEG_INFINITY),
                                2 => *v = Some(1.0e308),
                                3 => *v = Some(-1.2e308),
                                _ => {},
                            }
                        }
                    }
                    obs.class("infinite_or_huge_elements");
                }
                if matches!(op, Op::VDiff | Op::VPct) && c.mask & 0xC0 == 0x80 {
                    // tiny magnitudes (a non-zero base is a base, however small)
                    let sc = [1e-15, 1e-300, 2.5e-20][(c.mask as usize) % 3];
                    for v in c2.x.iter_mut() {
                        *v = v.map(|x| x * sc);
                    }
                    obs.class("tiny_magnitudes");
                }
                run_numeric::<f64>(&c2, op, obs)
            },
        },
        _ => {
            // the positional / order operations also see infinite elements (valid, ordered values) in a
            // quarter of the float cases; the differences are excluded (inf - inf is a null)
            let mut ci = c.clone();
            if c.enc != Enc::I32 && c.mask & 0xC0 == 0xC0 {
                for (i, v) in ci.x.iter_mut().enumerate() {
                    if v.is_some() && (i * 5 + c.mask as usize) % 4 == 0 {
                        *v = Some(if (i + c.mask as usize) % 8 < 4 { f64::INFINITY } else { f64::NEG_INFINITY });
                    }
                }
                obs.class("infinite_elements");
            }
            let c = &ci;
            match c.enc {
                Enc::F64 => run_typed::<f64>(c, op, obs),
                Enc::OptF64 => run_typed::<Option<f64>>(c, op, obs),
                Enc::I32 => run_typed::<i32>(c, op, obs),
            }
        },
    }
}

fn main() {
    let mut p = Property::new(
        "C13",
        "cases = (series x null pattern x encoding {f64 with NaN, Option<f64>, i32}, lag n in -len-3..=len+3 and i32::MIN/MAX, fill null / non-null, clip bounds in any order relation to the data incl. null bounds and lower > upper, mask predicate {is-null, is-negative, always, never}, input backend for the view-based vdiff / vpct_change) per operation; oracle = positional reference interpreter on the logical series (pct_change within 2 ulp, everything else exact) plus clip idempotence / containment for lower <= upper and length preservation. \
         Non-trivial: lagged ops: (1 <= |n| < len with a null within |n| of a boundary) or |n| >= len or non-null fill with n > 0; others: len >= 2 with both nulls and values (or an integer series); distinct = distinct serialised cases",
    )
    .assume("vdiff / shift / abs / vpct_change exist for plain numeric element types only (Option<f64> has no Sub); the default (null) fill is not requested for integer elements (DESIGN 5.7)")
    .assume("plain abs gets null-free data (5.1); i32::MIN is not generated for abs");
    for (name, op) in [
        ("shift", Op::Shift),
        ("vshift", Op::VShift),
        ("vdiff", Op::VDiff),
        ("vpct_change", Op::VPct),
        ("ffill", Op::FFill),
        ("bfill", Op::BFill),
        ("ffill_mask", Op::FFillMask),
        ("bfill_mask", Op::BFillMask),
        ("fill", Op::Fill),
        ("fill_mask", Op::FillMask),
        ("vclip", Op::Clip),
        ("abs", Op::Abs),
        ("vabs", Op::VAbs),
    ] {
        p.add(sub(name, 12000, 400000, map_case, move |c: &MapCase, obs: &mut Obs| check(c, op, obs)));
    }
    main_for(p);
}
