//! C20 — composite analytics terminate within range and respect their defining relations.
use proptest::prelude::*;
use serde::{Deserialize, Serialize};
use tevec::prelude::{AggValidFinal, CorrMethod, MapValidFinal, WinsorizeMethod};
use tvh::engine::{fail, main_for, sub, sub_enum, CheckResult, Obs, Property, Tier};
use tvh::gen::{len_strategy, raw_pair, raw_series, series_of, InT, Series};
use tvh::model::{compare, expect_agg2, Stat2};

const U: f64 = 1.1102230246251565e-16;

#[derive(Clone, Debug, Serialize, Deserialize)]
struct WCase {
    x: Series,
    method: u8,
    /// quantile as qa/qb in [0, 0.5], or multiplier k = qa/4
    qa: u32,
    qb: u32,
    default_param: bool,
    int: bool,
}

fn w_case(tier: Tier) -> impl Strategy<Value = WCase> {
    (raw_series(len_strategy(tier, 30, 200)), 0u8..3, 1u32..=12, any::<u16>(), any::<u8>(), any::<bool>()).prop_map(|(rs, method, qb, qs, d, int)| {
        let (x, _) = series_of(&rs, if int { InT::I32 } else { InT::F64 });
        let qa = match method {
            0 => (qs as u32) % (qb / 2 + 1), // qa/qb <= 0.5
            _ => (qs as u32) % 17,           // k = qa/4 in 0..=4
        };
        WCase {
            x,
            method,
            qa,
            qb,
            default_param: d % 8 == 0,
            int,
        }
    })
}

fn sorted_valid(x: &Series) -> Vec<f64> {
    let mut s: Vec<f64> = x.iter().filter_map(|v| *v).collect();
    s.sort_by(|a, b| a.partial_cmp(b).unwrap());
    s
}

fn quantile_linear(s: &[f64], q: f64) -> f64 {
    let n = s.len();
    if n == 1 {
        return s[0];
    }
    let pos = (n - 1) as f64 * q;
    let (i, j) = (pos.floor() as usize, pos.ceil() as usize);
    s[i] + (s[j] - s[i]) * (pos - i as f64)
}

fn check_winsorize(c: &WCase, obs: &mut Obs) -> CheckResult {
    let s = sorted_valid(&c.x);
    let n = s.len();
    let (method, mname) = match c.method {
        0 => (WinsorizeMethod::Quantile, "quantile"),
        1 => (WinsorizeMethod::Median, "median"),
        _ => (WinsorizeMethod::Sigma, "sigma"),
    };
    let param = if c.default_param {
        None
    } else {
        Some(match c.method {
            0 => c.qa as f64 / c.qb as f64,
            _ => c.qa as f64 / 4.0,
        })
    };
    let p = param.unwrap_or(if c.method == 0 { 0.01 } else { 3.0 });
    let run_i32 = |d: &Vec<i32>| -> Result<Vec<f64>, String> {
        let it = d.winsorize(method, param).map_err(|e| e.to_string())?;
        let v: Vec<f64> = Iterator::collect(it);
        Ok(v)
    };
    let run_f64 = |d: &Vec<f64>| -> Result<Vec<f64>, String> {
        let it = d.winsorize(method, param).map_err(|e| e.to_string())?;
        let v: Vec<f64> = Iterator::collect(it);
        Ok(v)
    };
    let got = if c.int {
        let d: Vec<i32> = c.x.iter().map(|v| v.unwrap() as i32).collect();
        run_i32(&d)
    } else {
        let d: Vec<f64> = c.x.iter().map(|v| v.unwrap_or(f64::NAN)).collect();
        run_f64(&d)
    };
    let got = match got {
        Ok(g) => g,
        Err(e) => return fail(format!("winsorize:{}:error", mname), e),
    };
    if got.len() != c.x.len() {
        return fail(format!("winsorize:{}:len", mname), format!("{} values for {} inputs", got.len(), c.x.len()));
    }
    // independently computed bounds; None = undefined (data must come back unchanged)
    let bounds: Option<(f64, f64, f64)> = if n == 0 {
        None
    } else {
        match c.method {
            0 => {
                let (lo, hi) = (quantile_linear(&s, p), quantile_linear(&s, 1.0 - p));
                let spread = (s[n - 1] - s[0]).abs();
                Some((lo, hi, 64.0 * U * (lo.abs().max(hi.abs())) + 64.0 * U * n as f64 * spread + 1e-300))
            },
            1 => {
                let med = quantile_linear(&s, 0.5);
                let mut dev: Vec<f64> = s.iter().map(|v| (v - med).abs()).collect();
                dev.sort_by(|a, b| a.partial_cmp(b).unwrap());
                let mad = quantile_linear(&dev, 0.5);
                let (lo, hi) = (med - p * mad, med + p * mad);
                // the library's linear interpolation carries an error of ~n ulp of the neighbour gap
                let spread = (s[n - 1] - s[0]).abs();
                Some((lo, hi, (64.0 * U * (lo.abs().max(hi.abs()).max(med.abs())) + 64.0 * U * n as f64 * spread) * (1.0 + p) + 1e-300))
            },
            _ => {
                let mean = s.iter().sum::<f64>() / n as f64;
                let m2 = s.iter().map(|v| (v - mean) * (v - mean)).sum::<f64>() / n as f64;
                let maxabs = s.iter().fold(0.0f64, |m, v| m.max(v.abs()));
                let tol_var = 64.0 * U * n as f64 * maxabs * maxabs;
                if n < 2 || m2 <= 1e-14 - tol_var {
                    None
                } else if m2 <= 1e-14 + tol_var {
                    // the variance floor may or may not trigger: no assertion beyond the generic ones
                    obs.class("eps_band");
                    return generic_only(c, &got, mname);
                } else {
                    let sd = (m2 * n as f64 / (n - 1) as f64).sqrt();
                    let (lo, hi) = (mean - p * sd, mean + p * sd);
                    // the library's one-pass variance: relative error ~ n u maxabs^2 / m2
                    let rel = 64.0 * U * n as f64 * (1.0 + maxabs * maxabs / m2);
                    // ... and the mean itself: its rounding error is relative to the data, not to the
                    // (possibly cancelling) mean
                    if maxabs * maxabs / m2 > 1e9 {
                        // data at a level far above their spread (sub winsorize:level): the general band
                        // below would swallow the whole series, so the two error sources are kept
                        // apart - the variance error scales only the k*sd term, the mean's error is
                        // relative to the data; where even that bound is not small nothing is asserted
                        // beyond the generic clauses
                        if rel >= 0.5 {
                            obs.class("cancellation_band");
                            return generic_only(c, &got, mname);
                        }
                        obs.class("level>3e4sd");
                        Some((lo, hi, rel * p * sd + 64.0 * U * n as f64 * maxabs + 1e-300))
                    } else {
                        Some((lo, hi, rel * (mean.abs() + p * sd) + 64.0 * U * n as f64 * maxabs + 1e-300))
                    }
                }
            },
        }
    };
    let (mut moved, mut kept) = (0, 0);
    for (i, v) in c.x.iter().enumerate() {
        let g = got[i];
        match v {
            None => {
                if !g.is_nan() {
                    return fail(format!("winsorize:{}:null", mname), format!("null at {} became {}", i, g));
                }
            },
            Some(v) => {
                if g.is_nan() {
                    return fail(format!("winsorize:{}:value-lost", mname), format!("value {} at {} became null", v, i));
                }
                match bounds {
                    None => {
                        if g != *v {
                            return fail(format!("winsorize:{}:undefined-bounds", mname), format!("bounds are undefined but {} became {}", v, g));
                        }
                    },
                    Some((lo, hi, tb)) => {
                        let ok = if *v > lo + tb && *v < hi - tb {
                            kept += 1;
                            g.to_bits() == v.to_bits()
                        } else if *v < lo - tb {
                            moved += 1;
                            (g - lo).abs() <= tb
                        } else if *v > hi + tb {
                            moved += 1;
                            (g - hi).abs() <= tb
                        } else {
                            g == *v || (g - lo).abs() <= tb || (g - hi).abs() <= tb
                        };
                        if !ok {
                            return fail(
                                format!("winsorize:{}:clip", mname),
                                format!("winsorize({}, {:?}) of {:?}: element {} = {} became {}, documented bounds are [{}, {}]", mname, param, c.x, i, v, g, lo, hi),
                            );
                        }
                    },
                }
            },
        }
    }
    generic_only(c, &got, mname)?;
    obs.set_nontrivial(moved >= 1 && kept >= 1);
    obs.class(mname);
    obs.class_if(bounds.is_none(), "undefined_bounds");
    Ok(())
}

/// order preservation (holds whatever the bounds are)
fn generic_only(c: &WCase, got: &[f64], mname: &str) -> CheckResult {
    let mut idx: Vec<usize> = (0..c.x.len()).filter(|i| c.x[*i].is_some()).collect();
    idx.sort_by(|a, b| c.x[*a].unwrap().partial_cmp(&c.x[*b].unwrap()).unwrap());
    for w in idx.windows(2) {
        if !(got[w[0]] <= got[w[1]]) {
            return fail(format!("winsorize:{}:order", mname), format!("order not preserved: {} <= {} but {} > {}", c.x[w[0]].unwrap(), c.x[w[1]].unwrap(), got[w[0]], got[w[1]]));
        }
    }
    Ok(())
}

// ---------------------------------------------------------------------------------------------

#[derive(Clone, Debug, Serialize, Deserialize)]
struct SCase {
    x: Series,
    y: Series,
    mp: Option<usize>,
}

fn s_case(tier: Tier) -> impl Strategy<Value = SCase> {
    (raw_pair(len_strategy(tier, 30, 150)), any::<u8>(), any::<u16>()).prop_map(|(mut rp, mm, ms)| {
        // small integers so that x -> 2x+1 and x -> x^3 are exact strictly increasing maps
        rp.a.class = [0u8, 1, 5, 6][(mm % 4) as usize];
        rp.b.class = [0u8, 1, 5, 6][((mm / 4) % 4) as usize];
        let (x, _) = series_of(&rp.a, InT::F64);
        let (y, _) = series_of(&rp.b, InT::F64);
        let x: Series = x.iter().map(|v| v.map(|v| v.round())).collect();
        let y: Series = y.iter().map(|v| v.map(|v| v.round())).collect();
        let len = x.len();
        let mp = if mm % 3 == 0 { None } else { Some((ms as usize) % (len + 2)) };
        SCase { x, y, mp }
    })
}

fn avg_ranks(x: &Series) -> Series {
    let valid: Vec<f64> = x.iter().filter_map(|v| *v).collect();
    x.iter()
        .map(|v| {
            v.map(|v| {
                let less = valid.iter().filter(|a| **a < v).count() as f64;
                let eq = valid.iter().filter(|a| **a == v).count() as f64;
                less + (eq + 1.0) / 2.0
            })
        })
        .collect()
}

fn spearman(x: &Series, y: &Series, mp: Option<usize>) -> f64 {
    let a: Vec<f64> = x.iter().map(|v| v.unwrap_or(f64::NAN)).collect();
    let b: Vec<f64> = y.iter().map(|v| v.unwrap_or(f64::NAN)).collect();
    a.vcorr(&b, mp, CorrMethod::Spearman)
}

fn check_spearman(c: &SCase, obs: &mut Obs) -> CheckResult {
    let got = spearman(&c.x, &c.y, c.mp);
    let (rx, ry) = (avg_ranks(&c.x), avg_ranks(&c.y));
    let mp = c.mp.unwrap_or(c.x.len() / 2);
    let exp = expect_agg2(Stat2::Corr, &rx, &ry, mp);
    if let Err(rel) = compare(if got.is_nan() { None } else { Some(got) }, &exp, tvh::gen::OutT::F64) {
        return fail("spearman:model", format!("vcorr(Spearman, min_periods {:?}) of {:?} / {:?}: {}", c.mp, c.x, c.y, rel));
    }
    // Pearson route must agree with the aggregate as well
    let a: Vec<f64> = c.x.iter().map(|v| v.unwrap_or(f64::NAN)).collect();
    let b: Vec<f64> = c.y.iter().map(|v| v.unwrap_or(f64::NAN)).collect();
    let p = a.vcorr(&b, c.mp, CorrMethod::Pearson);
    let expp = expect_agg2(Stat2::Corr, &c.x, &c.y, mp);
    if let Err(rel) = compare(if p.is_nan() { None } else { Some(p) }, &expp, tvh::gen::OutT::F64) {
        return fail("pearson:model", format!("vcorr(Pearson): {}", rel));
    }
    // invariance under strictly increasing maps that are exact on the data
    let maps: [(&str, fn(f64) -> f64); 3] = [("2x+1", |v| 2.0 * v + 1.0), ("x^3", |v| v * v * v), ("x-1000", |v| v - 1000.0)];
    for (name, f) in maps {
        let x2: Series = c.x.iter().map(|v| v.map(f)).collect();
        let y2: Series = c.y.iter().map(|v| v.map(f)).collect();
        for (which, a, b) in [("first", &x2, &c.y), ("second", &c.x, &y2), ("both", &x2, &y2)] {
            let g2 = spearman(a, b, c.mp);
            if g2.to_bits() != got.to_bits() && !(g2.is_nan() && got.is_nan()) {
                return fail(format!("spearman:invariance:{}", name), format!("Spearman changed from {} to {} after applying {} to the {} series", got, g2, name, which));
            }
        }
    }
    // integer element types: Spearman depends on the order only, so shifting an i64 series beyond 2^53
    // (where neighbouring values are equal as f64) must not change it
    if c.x.iter().chain(c.y.iter()).flatten().all(|v| v.fract() == 0.0 && v.abs() < 1e6) {
        let base: i64 = [1i64 << 53, 1 << 60, -(1 << 61)][c.x.len() % 3];
        let xo: Vec<Option<i64>> = c.x.iter().map(|v| v.map(|v| v as i64)).collect();
        let yo: Vec<Option<i64>> = c.y.iter().map(|v| v.map(|v| v as i64)).collect();
        let xw: Vec<Option<i64>> = xo.iter().map(|v| v.map(|v| v + base)).collect();
        let g0 = xo.vcorr(&yo, c.mp, CorrMethod::Spearman).unwrap_or(f64::NAN);
        let g1 = xw.vcorr(&yo, c.mp, CorrMethod::Spearman).unwrap_or(f64::NAN);
        let g2 = yo.vcorr(&xw, c.mp, CorrMethod::Spearman).unwrap_or(f64::NAN);
        if (g0.to_bits() != g1.to_bits() && !(g0.is_nan() && g1.is_nan())) || (g0.to_bits() != g2.to_bits() && !(g0.is_nan() && g2.is_nan())) {
            return fail("spearman:invariance:i64-shift", format!("Spearman of Option<i64> series changed from {} to {} / {} after adding {} to one of them", g0, g1, g2, base));
        }
        if g0.to_bits() != got.to_bits() && !(g0.is_nan() && got.is_nan()) {
            return fail("spearman:element-type", format!("Spearman of the Option<i64> series is {}, of the same values as f64 {}", g0, got));
        }
        obs.class("i64_shifted_beyond_2^53");
    }
    let n = c.x.iter().zip(c.y.iter()).filter(|(a, b)| a.is_some() && b.is_some()).count();
    let sx = sorted_valid(&c.x);
    obs.set_nontrivial(n >= 4 && !got.is_nan() && sx.windows(2).any(|w| w[0] == w[1]));
    obs.class_if(got.is_nan(), "null_result");
    Ok(())
}

// ---------------------------------------------------------------------------------------------

#[derive(Clone, Debug, Serialize, Deserialize)]
struct HCase {
    x: Series,
    mp: Option<usize>,
    kind: String,
}

fn h_case(tier: Tier) -> impl Strategy<Value = HCase> {
    (raw_series(len_strategy(tier, 60, 200)), 0u8..6, any::<u8>(), any::<u16>(), any::<bool>()).prop_map(|(rs, kind, phi_sel, ms, nulls)| {
        let n = rs.raw.len();
        let noise: Vec<f64> = rs.raw.iter().map(|(a, _)| *a as f64 / (1u32 << 20) as f64).collect();
        let (vals, kname): (Vec<f64>, &str) = match kind {
            0 => (vec![1.5; n], "constant"),
            1 => ((0..n).map(|i| i as f64 + 0.01 * noise[i]).collect(), "monotone"),
            2 => ((0..n).map(|i| if i % 2 == 0 { 1.0 } else { -1.0 } + 0.01 * noise[i]).collect(), "alternating"),
            3 | 4 => {
                // AR(1) with persistence phi in (-1, 1)
                let phi = (phi_sel as f64 - 127.5) / 128.5;
                let mut v = Vec::with_capacity(n);
                let mut cur = 0.0;
                for e in &noise {
                    cur = phi * cur + e;
                    v.push(cur);
                }
                (v, "ar1")
            },
            _ => (noise.clone(), "noise"),
        };
        let x: Series = vals
            .iter()
            .enumerate()
            .map(|(i, v)| if nulls && rs.raw[i].1 < 20 { None } else { Some(*v) })
            .collect();
        let mp = if ms % 4 == 0 || n == 0 { None } else { Some(1 + (ms as usize) % n.max(1)) };
        HCase { x, mp, kind: kname.to_string() }
    })
}

/// independent Pearson autocorrelation at lag l under the library's null / zero-variance rule
fn autocorr(x: &Series, l: usize, mp: usize) -> Option<f64> {
    let n = x.len();
    let mut a = vec![];
    let mut b = vec![];
    for i in l..n {
        if let (Some(p), Some(q)) = (x[i], x[i - l]) {
            a.push(p);
            b.push(q);
        }
    }
    let m = a.len();
    if m < mp.max(2) {
        return None;
    }
    let (ma, mb) = (a.iter().sum::<f64>() / m as f64, b.iter().sum::<f64>() / m as f64);
    let (mut va, mut vb, mut cv) = (0.0, 0.0, 0.0);
    for k in 0..m {
        va += (a[k] - ma) * (a[k] - ma);
        vb += (b[k] - mb) * (b[k] - mb);
        cv += (a[k] - ma) * (b[k] - mb);
    }
    let (va, vb, cv) = (va / m as f64, vb / m as f64, cv / m as f64);
    if va <= 1e-13 || vb <= 1e-13 {
        return None; // (numerically) constant: the library reports a null correlation
    }
    Some(cv / (va * vb).sqrt())
}

fn check_half_life(c: &HCase, obs: &mut Obs) -> CheckResult {
    let d: Vec<f64> = c.x.iter().map(|v| v.unwrap_or(f64::NAN)).collect();
    let len = d.len();
    let got = d.half_life(c.mp); // a panic (incl. arithmetic overflow) is caught by the engine
    if len == 0 {
        if got != 0 {
            return fail("half_life:empty", format!("half_life of an empty series = {}", got));
        }
        return Ok(());
    }
    if got > len - 1 {
        return fail("half_life:range", format!("half_life = {} for a series of length {}", got, len));
    }
    if got == 0 && len >= 2 {
        return fail("half_life:zero", format!("half_life = 0 for a series of length {}", len));
    }
    obs.class(match c.kind.as_str() {
        "constant" => "constant",
        "monotone" => "monotone",
        "alternating" => "alternating",
        "ar1" => "ar1",
        _ => "noise",
    });
    if len < 2 {
        return Ok(());
    }
    // shape rule: autocorrelation clearly above 0.5 for all lags < L and clearly not above for all lags >= L
    let mp = c.mp.unwrap_or(len / 2);
    let r: Vec<Option<f64>> = (1..len).map(|l| autocorr(&c.x, l, mp)).collect();
    let above = |v: &Option<f64>| v.map(|v| v > 0.5 + 1e-9).unwrap_or(false);
    let below = |v: &Option<f64>| v.map(|v| v < 0.5 - 1e-9).unwrap_or(true);
    // near-floor variances make the library's null decision ambiguous: require clear variance
    let l_first = r.iter().position(|v| !above(v)).map(|p| p + 1).unwrap_or(len);
    let shape_ok = r[..l_first - 1].iter().all(above) && r[l_first.min(len) - 1..].iter().all(below);
    if shape_ok {
        let want = l_first.min(len - 1);
        if got != want {
            return fail(
                "half_life:first-lag",
                format!("half_life(min_periods {:?}) = {} but the autocorrelation is > 0.5 exactly for lags < {} (series kind {}, len {})", c.mp, got, l_first, c.kind, len),
            );
        }
        obs.class("shape_rule_applied");
        let pow2 = l_first.is_power_of_two();
        obs.set_nontrivial(l_first >= 3 && !pow2);
        obs.class_if(l_first >= 3 && !pow2, "bisection_needed");
    }
    Ok(())
}

/// Small-scope enumeration for the half-life: EVERY series of a given short length over a small integer
/// alphabet (tick-like data: all power sums are exact, so an autocorrelation can be exactly 0.5 - the
/// boundary the definition "first lag at which it is NOT above 0.5" turns on, which float data never
/// hits). A lag whose independently computed autocorrelation is within 1e-9 of 0.5 is decided by the
/// library's own public Pearson correlation of the series with its lagged copy, compared exactly.
#[derive(Clone, Debug, Serialize, Deserialize)]
struct HSmall {
    len: usize,
    base: u32,
    code: u32,
}

fn h_small_cases(tier: Tier) -> impl Iterator<Item = HSmall> {
    // quick: length 7 over {0..6} (823 543 series); thorough adds length 6 and 8 (over {0..5})
    let plans: Vec<(usize, u32)> = if tier == Tier::Quick { vec![(7, 7)] } else { vec![(7, 7), (6, 7), (8, 6), (9, 4)] };
    plans.into_iter().flat_map(|(len, base)| (0..base.pow(len as u32)).map(move |code| HSmall { len, base, code }))
}

fn check_half_life_small(c: &HSmall, obs: &mut Obs) -> CheckResult {
    use tevec::prelude::{AggValidBasic, MapValidBasic, TIter};
    let mut code = c.code;
    let d: Vec<f64> = (0..c.len)
        .map(|_| {
            let v = (code % c.base) as f64;
            code /= c.base;
            v
        })
        .collect();
    let x: Series = d.iter().map(|v| Some(*v)).collect();
    let len = c.len;
    let mut nontrivial = false;
    for mp in [1usize, 3] {
        let got = d.half_life(Some(mp));
        if got > len - 1 || got == 0 {
            return fail("half_life:small:range", format!("half_life(min_periods {}) of {:?} = {}", mp, d, got));
        }
        let mut tie = false;
        let above: Vec<bool> = (1..len)
            .map(|l| match autocorr(&x, l, mp) {
                Some(r) if (r - 0.5).abs() > 1e-9 => r > 0.5,
                Some(_) => {
                    tie = true;
                    let lib: f64 = d.titer().vcorr_pearson(d.titer().vshift(l as i32, None), mp);
                    lib > 0.5
                },
                None => false,
            })
            .collect();
        let l_first = above.iter().position(|a| !*a).map(|p| p + 1).unwrap_or(len);
        let shape_ok = above[l_first.min(len) - 1..].iter().all(|a| !*a);
        if shape_ok {
            let want = l_first.min(len - 1);
            if got != want {
                return fail(
                    if tie { "half_life:small:first-lag:exact-half" } else { "half_life:small:first-lag" },
                    format!("half_life(min_periods {}) of {:?} = {} but the autocorrelation is above 0.5 exactly for lags < {} (flags per lag {:?})", mp, d, got, l_first, above),
                );
            }
            if l_first >= 3 && !l_first.is_power_of_two() {
                nontrivial = true;
                obs.class("bisection_needed");
            }
            obs.class_if(tie, "autocorrelation_exactly_half_at_some_lag");
        }
    }
    obs.set_nontrivial(nontrivial);
    Ok(())
}

/// Very long series with giant tie groups (a +-1 direction series of 70 000..140 000 points): the
/// summed ranks of one tie group exceed 2^31, average ranks must still be exact and Spearman must
/// equal the Pearson correlation of those ranks. The case stores only (n, seed-like parameters).
#[derive(Clone, Debug, Serialize, Deserialize)]
struct LongTieCase {
    n: usize,
    a: u32,
    b: u32,
}

fn long_tie_case(_t: Tier) -> impl Strategy<Value = LongTieCase> {
    (70_000usize..=140_000, 1u32..1000, 1u32..1000).prop_map(|(n, a, b)| LongTieCase { n, a, b })
}

fn check_long_ties(c: &LongTieCase, obs: &mut Obs) -> CheckResult {
    use tevec::prelude::MapValidVec;
    // direction series: +-1 from a multiplicative hash; second series: three-valued
    let x: Vec<f64> = (0..c.n).map(|i| if ((i as u64).wrapping_mul(c.a as u64 * 2 + 1).wrapping_add(c.b as u64) >> 3) % 5 < 2 { -1.0 } else { 1.0 }).collect();
    let y: Vec<f64> = (0..c.n).map(|i| ((i as u64).wrapping_mul(c.b as u64 * 2 + 1) % 3) as f64 + if i % 7 == 0 { x[i] } else { 0.0 }).collect();
    let ranks: Vec<f64> = x.vrank(false, false);
    let n_lo = x.iter().filter(|v| **v < 0.0).count() as f64;
    let n_hi = c.n as f64 - n_lo;
    let (r_lo, r_hi) = ((n_lo + 1.0) / 2.0, n_lo + (n_hi + 1.0) / 2.0);
    for (i, r) in ranks.iter().enumerate() {
        let want = if x[i] < 0.0 { r_lo } else { r_hi };
        if *r != want {
            return fail("long_ties:vrank", format!("vrank of a +-1 series of {} points ({} low): element {} has rank {}, the average rank of its tie group is {}", c.n, n_lo, i, r, want));
        }
    }
    let got = x.vcorr(&y, Some(2), CorrMethod::Spearman);
    // Pearson of exact average ranks, computed with centred sums
    let ry: Vec<f64> = {
        let mut cnt = [0f64; 8];
        for v in &y {
            cnt[(*v + 1.0) as usize] += 1.0;
        }
        let mut below = [0f64; 8];
        for k in 1..8 {
            below[k] = below[k - 1] + cnt[k - 1];
        }
        y.iter().map(|v| below[(*v + 1.0) as usize] + (cnt[(*v + 1.0) as usize] + 1.0) / 2.0).collect()
    };
    let rx: Vec<f64> = x.iter().map(|v| if *v < 0.0 { r_lo } else { r_hi }).collect();
    let n = c.n as f64;
    let (mx, my) = (rx.iter().sum::<f64>() / n, ry.iter().sum::<f64>() / n);
    let (mut sxy, mut sxx, mut syy) = (0.0, 0.0, 0.0);
    for i in 0..c.n {
        let (dx, dy) = (rx[i] - mx, ry[i] - my);
        sxy += dx * dy;
        sxx += dx * dx;
        syy += dy * dy;
    }
    let want = sxy / (sxx * syy).sqrt();
    if !((got - want).abs() <= 1e-9 || (got.is_nan() && want.is_nan())) {
        return fail("long_ties:spearman", format!("Spearman of two heavily tied series of {} points = {}, Pearson of the average ranks = {}", c.n, got, want));
    }
    obs.set_nontrivial(true);
    Ok(())
}

fn main() {
    let mut p = Property::new(
        "C20",
        "winsorize cases = (series of length 0..=30 (thorough ..=200) with nulls, f64 or i32; method quantile with q = a/b <= 0.5, median-MAD and sigma with k = a/4 in 0..=4, or the default parameter): output length == input length, nulls stay null, with independently computed bounds every value strictly inside is bit-identical, every value outside lands on the nearer bound (within the stated rounding band), undefined bounds return the data unchanged, order is preserved. \
         Spearman cases = pairs of integer-valued series with nulls and ties: vcorr(Spearman) equals Pearson of independently computed average ranks (DESIGN 5.9) and is bit-identical after x -> 2x+1, x -> x^3, x -> x-1000 applied to either or both series. \
         half_life cases = constant / monotone / alternating / AR(1) with persistence in (-1,1) / noise, with nulls, min_periods omitted or 1..=len: returns without panic (overflow checks on), result in 1..=len-1 (0 only for len < 2), and equals the first lag whose autocorrelation is not above 0.5 whenever the independently computed autocorrelation has that shape; sub half_life:small_integer_scope enumerates EVERY series of length 7 over {0..6} (thorough: also length 6 over {0..6}, 8 over {0..5}, 9 over {0..3}) with min_periods 1 and 3, a lag whose autocorrelation is within 1e-9 of 0.5 being decided by the library's own Pearson correlation of the series with its lagged copy (non-trivial there = the first such lag is >= 3 and not a power of two). \
         Non-trivial: (winsorize) at least one value moved and one kept; (Spearman) >= 4 complete pairs, a tie, non-null result; (half_life) shape rule applies with first lag >= 3 and not a power of two (bisection needed); distinct = distinct serialised cases",
    )
    .assume("winsorize bounds are compared inside a rounding band around each bound (values within the band may legitimately fall on either side)");
    p.add(sub("winsorize", 30000, 1000000, w_case, check_winsorize));
    // the same at a level far above the spread (small integer offsets on 1e6 / 4e6): a variance that is
    // wrongly reported as zero there leaves the sigma method without bounds
    p.add(sub(
        "winsorize:level",
        6000,
        200000,
        |t| {
            w_case(t).prop_map(|mut c| {
                let level = if c.qb % 2 == 0 { 4.0e6 } else { 1.0e6 };
                for v in c.x.iter_mut() {
                    *v = v.map(|x| level + (x.abs() % 16.0).floor());
                }
                c.method = 2;
                c.qa = c.qa % 17;
                c
            })
        },
        check_winsorize,
    ));
    p.add(sub("spearman", 15000, 400000, s_case, check_spearman));
    p.add(sub("long_tie_groups", 1, 12, long_tie_case, check_long_ties));
    p.add(sub("half_life", 15000, 400000, h_case, check_half_life));
    p.add(sub_enum("half_life:small_integer_scope", h_small_cases, check_half_life_small));
    main_for(p);
}
