//! C03 — rolling extrema, arg-extrema, rank and normalisation are exact per window.
use proptest::prelude::*;
use tvh::engine::*;
use tvh::gen::*;
use tvh::model::{expect_series, lo_of, Stat};
use tvh::rollcheck::check1;

const INS: &[InT] = &[InT::F64, InT::I32, InT::OptF64, InT::OptI32, InT::F32, InT::I64];
// ts_vmin/ts_vmax cast Option<value> to the output type; a plain integer output cannot hold
// the null that an empty window needs (DESIGN 5.7), so it is not requested for them
const OUTS_MINMAX: &[OutT] = &[OutT::F64, OutT::OptF64, OutT::OptI32, OutT::F32];
const OUTS: &[OutT] = &[OutT::F64, OutT::OptF64, OutT::OptI32, OutT::F32, OutT::I32];

/// extra observations: an expiry rescan happened (the position holding the window's extreme is
/// the one that just left) and a tie exists inside some window
fn classify_c03(c: &RollCase, obs: &mut Obs) {
    let len = c.x.len();
    let w = c.w;
    let mut rescan = false;
    let mut tie = false;
    for i in w..len {
        let lo_prev = lo_of(i - 1, w);
        // was the extreme of the previous window at its first position?
        let prev: Vec<f64> = (lo_prev..i).filter_map(|j| c.x[j]).collect();
        if let Some(first) = c.x[lo_prev] {
            let mn = prev.iter().cloned().fold(f64::INFINITY, f64::min);
            let mx = prev.iter().cloned().fold(f64::NEG_INFINITY, f64::max);
            // most recent holder is the first element only if it is the unique extreme
            if (first == mn && prev.iter().filter(|v| **v == mn).count() == 1) || (first == mx && prev.iter().filter(|v| **v == mx).count() == 1) {
                rescan = true;
            }
        }
        let cur: Vec<f64> = (lo_of(i, w)..=i).filter_map(|j| c.x[j]).collect();
        for a in 0..cur.len() {
            for b in a + 1..cur.len() {
                if cur[a] == cur[b] {
                    tie = true;
                }
            }
        }
        if rescan && tie {
            break;
        }
    }
    obs.class_if(rescan, "expiry_rescan");
    obs.class_if(tie, "tie_in_window");
    obs.class_if(rescan && c.x.iter().any(|v| v.is_none()), "rescan_with_nulls");
    // override the generic rule: non-trivial = rescan and tie
    obs.nontrivial = rescan && tie;
}

/// Wide integers: the same tie-heavy integer series shifted by a base beyond 2^53 (nanosecond
/// timestamps, ids), where neighbouring values are no longer distinguishable after a cast to f64.
/// Order statistics must still be exact: rank / arg are those of the small offsets, min / max are
/// base + the offset's min / max (read back through an `Option<i64>` output).
const BASES: [i64; 6] = [1 << 53, 1 << 60, -(1 << 62), i64::MAX - 4000, i64::MIN + 4000, 1_700_000_000_123_456_789];

fn wide_integers(c: &RollCase, st: Stat, obs: &mut Obs) -> CheckResult {
    use tvh::rollcheck::compare_series;
    use tvh::sut;
    let len = c.x.len();
    let base = BASES[(len * 31 + c.w * 7 + c.mp.unwrap_or(3)) % BASES.len()];
    if c.x.iter().flatten().any(|v| v.abs() > 3000.0) {
        obs.class("offset_too_large_skipped");
        return Ok(());
    }
    let name = format!("ts_v{}", st.name());
    let err = |e: String| Fail { sig: format!("wide:{}:out-path", name), detail: e };
    let nullable = c.tin.nullable();
    let plain: Vec<i64> = c.x.iter().map(|v| base + v.unwrap_or(0.0) as i64).collect();
    let opt: Vec<Option<i64>> = c.x.iter().map(|v| v.map(|v| base + v as i64)).collect();
    let got: Series = if matches!(st, Stat::Min | Stat::Max) {
        let r: Vec<Option<i64>> = if nullable {
            sut::via_vec(len, c.out_buf, |buf| sut::roll_valid::<Vec<Option<i64>>, Option<i64>, Vec<Option<i64>>, Option<i64>>(&opt, st, c.w, c.mp, buf)).map_err(err)?
        } else {
            sut::via_vec(len, c.out_buf, |buf| sut::roll_valid::<Vec<i64>, i64, Vec<Option<i64>>, Option<i64>>(&plain, st, c.w, c.mp, buf)).map_err(err)?
        };
        r.into_iter().map(|v| v.map(|v| (v - base) as f64)).collect()
    } else {
        let r: Vec<f64> = if nullable {
            sut::via_vec(len, c.out_buf, |buf| sut::roll_valid::<Vec<Option<i64>>, Option<i64>, Vec<f64>, f64>(&opt, st, c.w, c.mp, buf)).map_err(err)?
        } else {
            sut::via_vec(len, c.out_buf, |buf| sut::roll_valid::<Vec<i64>, i64, Vec<f64>, f64>(&plain, st, c.w, c.mp, buf)).map_err(err)?
        };
        tvh::conv::normalize(r)
    };
    let x: Series = if nullable { c.x.clone() } else { c.x.iter().map(|v| Some(v.unwrap_or(0.0))).collect() };
    let exp = expect_series(st, &x, c.w, c.mp);
    compare_series(&format!("wide:{}", name), &got, &exp, OutT::OptF64, len, obs).map_err(|f| Fail { sig: format!("wide:{}", f.sig), detail: format!("base {}: {}", base, f.detail) })?;
    let distinct_neighbours = (1..len).any(|i| matches!((x[i - 1], x[i]), (Some(a), Some(b)) if a != b && (base as f64 + a) == (base as f64 + b)));
    obs.class_if(distinct_neighbours, "f64_collapses_neighbours");
    obs.nontrivial = len > c.w && distinct_neighbours;
    Ok(())
}

fn main() {
    let mut p = Property::new(
        "C03",
        "cases = (tie-heavy / monotone-run / plateau / constant series x null patterns, window 1..=len+2, min_periods 0..=w or omitted, element and output types, returned/out-buffer path) per entry point; every position compared with the per-window definition, exactly for min/max/arg/rank (tol 0), 4 ulp for minmaxnorm, DESIGN 5.9 for zscore. \
         Non-trivial = an expiry rescan happened (the unique extreme of a window sat at the position that just left) and a tie exists inside some window after the first removal; distinct = distinct serialised cases",
    )
    .assume("omitted min_periods of the extrema/rank family is asserted for len >= w only (DESIGN 5.3)")
    .assume("ts_vmin/ts_vmax are not asked for a plain i32 output (no null encoding, DESIGN 5.7)")
    .assume("thorough tier: libFuzzer target fz_extrema (bytes -> alphabet-coded series, window, min_periods, statistic) runs the same oracle")
    .raw(|bytes| {
        let (c, st) = tvh::fuzzable::decode_extrema(bytes);
        (format!("ts_v{}", st.name()), serde_json::to_value(c).unwrap())
    });
    let exact = [
        Stat::Min,
        Stat::Max,
        Stat::ArgMin,
        Stat::ArgMax,
        Stat::Rank { pct: false, rev: false },
        Stat::Rank { pct: true, rev: false },
        Stat::Rank { pct: false, rev: true },
        Stat::Rank { pct: true, rev: true },
        Stat::MinMaxNorm,
        Stat::ZScore,
    ];
    for st in exact {
        let outs: &'static [OutT] = if matches!(st, Stat::Min | Stat::Max) { OUTS_MINMAX } else { OUTS };
        p.add(sub(
            &format!("ts_v{}", st.name()),
            12000,
            600000,
            move |tier| roll_case_of(tier, INS, outs, 48, 300, 1, TIE_CLASSES),
            move |c: &RollCase, obs: &mut Obs| {
                // infinite elements are ordered values like any other for min / max / arg / rank; they are
                // derived here (a quarter of the float cases) so that the stored case stays finite
                let order_stat = !matches!(st, Stat::MinMaxNorm | Stat::ZScore);
                if order_stat && matches!(c.tin, InT::F64 | InT::OptF64) && (c.w + c.x.len()) % 4 == 0 {
                    let mut c2 = c.clone();
                    for (i, v) in c2.x.iter_mut().enumerate() {
                        if v.is_some() {
                            match (i * 3 + c.w) % 5 {
                                0 | 1 => *v = Some(f64::INFINITY),
                                2 => *v = Some(f64::NEG_INFINITY),
                                _ => {},
                            }
                        }
                    }
                    obs.class("infinite_elements");
                    check1(&c2, st, true, obs)?;
                }
                check1(c, st, true, obs)?;
                classify_c03(c, obs);
                Ok(())
            },
        ));
        p.add(sub(
            &format!("long:ts_v{}", st.name()),
            8,
            400,
            move |_| roll_case_long_of(INS, 12000, 1, TIE_CLASSES),
            move |c: &RollCase, obs: &mut Obs| {
                check1(c, st, true, obs)?;
                obs.nontrivial = true;
                Ok(())
            },
        ));
    }
    const WIDE_INS: &[InT] = &[InT::I64, InT::OptI32];
    for st in [Stat::Min, Stat::Max, Stat::ArgMin, Stat::ArgMax, Stat::Rank { pct: false, rev: false }, Stat::Rank { pct: true, rev: true }, Stat::MinMaxNorm] {
        p.add(sub(
            &format!("wide_integers:ts_v{}", st.name()),
            4000,
            200000,
            move |tier| roll_case_of(tier, WIDE_INS, &[OutT::OptF64], 48, 300, 1, TIE_CLASSES),
            move |c: &RollCase, obs: &mut Obs| wide_integers(c, st, obs),
        ));
    }
    let _ = expect_series;
    let _ = any::<u8>();
    main_for(p);
}
