//! C08 — NaN and None are the same null, and nulls are transparent to valid aggregations.
use proptest::prelude::*;
use serde::{Deserialize, Serialize};
use tevec::prelude::{AggValidExt, AggValidFinal, CorrMethod, MapValidVec, PercentileOfMethod, QuantileMethod, VecAggValidExt};
use tvh::conv::{materialize, normalize, OutElem};
use tvh::engine::{fail, main_for, sub, CheckResult, Fail, Obs, Property, Tier};
use tvh::gen::*;
use tvh::model::{Stat, Stat2};
use tvh::rollcheck::eval_valid;
use tvh::sut_agg as sa;
use tvh::sut_map as sm;

fn bits(s: &Series) -> Vec<u64> {
    s.iter().map(|v| v.map(|x| x.to_bits()).unwrap_or(u64::MAX)).collect()
}
fn fb(v: f64) -> u64 {
    if v.is_nan() { u64::MAX } else { v.to_bits() }
}

const STATS: [Stat; 23] = [
    Stat::Sum,
    Stat::Mean,
    Stat::Ewm,
    Stat::Wma,
    Stat::Std,
    Stat::Var,
    Stat::Skew,
    Stat::Kurt,
    Stat::Fdiff(0.5),
    Stat::Min,
    Stat::Max,
    Stat::ArgMin,
    Stat::ArgMax,
    Stat::Rank { pct: false, rev: false },
    Stat::Rank { pct: true, rev: true },
    Stat::MinMaxNorm,
    Stat::ZScore,
    Stat::Reg,
    Stat::Tsf,
    Stat::RegSlope,
    Stat::RegIntercept,
    Stat::RegResidMean,
    Stat::Rank { pct: true, rev: false },
];

/// a NaN whose sign bit is set (what 0.0 / 0.0 evaluates to on x86-64) is the same null
fn neg_nan() -> f64 {
    f64::from_bits(f64::NAN.to_bits() | (1u64 << 63))
}
/// NaN encoding in which every second null (all of them when `all`) carries the sign bit
fn neg_nan_encoding(x: &[Option<f64>], all: bool) -> Vec<f64> {
    let mut k = 0usize;
    x.iter()
        .map(|v| match v {
            Some(x) => *x,
            None => {
                k += 1;
                if all || k % 2 == 1 {
                    neg_nan()
                } else {
                    f64::NAN
                }
            },
        })
        .collect()
}

/// relation 1 for rolling functions: NaN-encoded vs None-encoded input, and the four output encodings
fn encoding_rolling(c: &RollCase, obs: &mut Obs) -> CheckResult {
    let stat = STATS[(c.p as usize) % STATS.len()];
    let name = format!("ts_v{}", stat.name());
    let run = |tin: InT, tout: OutT| -> Result<Series, Fail> {
        let mut cc = c.clone();
        cc.tin = tin;
        cc.tout = tout;
        eval_valid(&cc, stat).map_err(|e| Fail {
            sig: format!("{}:out-path", name),
            detail: e,
        })
    };
    let int_data = c.x.iter().all(|v| v.map(|x| x.fract() == 0.0 && x.abs() < 1e6).unwrap_or(true));
    let all_valid = c.x.iter().all(|v| v.is_some());
    let skip_int_out = matches!(stat, Stat::Min | Stat::Max); // a plain integer output cannot hold their null (5.7)
    let base = run(InT::F64, OutT::F64)?;
    // input encodings
    let mut variants: Vec<(&str, Series)> = vec![("Option<f64> input", run(InT::OptF64, OutT::F64)?)];
    if int_data && all_valid {
        variants.push(("i32 input", run(InT::I32, OutT::F64)?));
        variants.push(("Option<i32> input (all Some)", run(InT::OptI32, OutT::F64)?));
    } else if int_data {
        variants.push(("Option<i32> input", run(InT::OptI32, OutT::F64)?));
    }
    if !all_valid {
        let fneg = neg_nan_encoding(&c.x, c.w % 2 == 0);
        let r = tvh::sut::via_vec(fneg.len(), c.out_buf, |buf| match stat {
            Stat::Fdiff(d) => tvh::sut::roll_vfdiff::<Vec<f64>, f64, Vec<f64>, f64>(&fneg, d, c.w, c.mp, buf),
            _ => tvh::sut::roll_valid::<Vec<f64>, f64, Vec<f64>, f64>(&fneg, stat, c.w, c.mp, buf),
        })
        .map_err(|e| Fail { sig: format!("{}:out-path", name), detail: e })?;
        variants.push(("f64 input with sign-bit NaN nulls", normalize(r)));
    }
    for (what, v) in &variants {
        // integer inputs sum in integer arithmetic: identical for the small integers generated here
        if bits(v) != bits(&base) {
            let i = (0..base.len().min(v.len())).find(|i| bits(v)[*i] != bits(&base)[*i]).unwrap_or(0);
            return fail(format!("{}:input-encoding", name), format!("{} (w {}, mp {:?}) differs between f64 (NaN) input and {} at {}: {:?} vs {:?}", name, c.w, c.mp, what, i, base.get(i), v.get(i)));
        }
    }
    // output encodings
    let o = run(InT::F64, OutT::OptF64)?;
    if bits(&o) != bits(&base) {
        return fail(format!("{}:output-encoding:Option<f64>", name), format!("{}: Option<f64> output differs from f64 output", name));
    }
    let o32 = run(InT::OptF64, OutT::F32)?;
    let want32: Series = base.iter().map(|v| v.map(|x| x as f32 as f64)).collect();
    if bits(&o32) != bits(&want32) {
        return fail(format!("{}:output-encoding:f32", name), format!("{}: f32 output is not the rounded f64 output", name));
    }
    if !skip_int_out || true {
        let oi = run(InT::OptF64, OutT::OptI32)?;
        let wanti: Series = base.iter().map(|v| v.map(|x| x as i32 as f64)).collect();
        if bits(&oi) != bits(&wanti) {
            return fail(format!("{}:output-encoding:Option<i32>", name), format!("{}: Option<i32> output is not the cast f64 output: {:?} vs {:?}", name, oi, wanti));
        }
    }
    let nulls = c.x.iter().filter(|v| v.is_none()).count();
    obs.set_nontrivial(nulls >= 1 && nulls < c.x.len() && c.x.len() > c.w);
    obs.class_if(int_data, "integer_valued");
    Ok(())
}

/// relation 1 for mapping functions and aggregations
fn encoding_map_agg(c: &RollCase, obs: &mut Obs) -> CheckResult {
    let f: Vec<f64> = materialize(&c.x);
    let o: Vec<Option<f64>> = materialize(&c.x);
    let n = (c.w as i32) - 2;
    let fill = if c.out_buf { Some(7.5) } else { None };
    macro_rules! same {
        ($name:expr, $a:expr, $b:expr) => {
            if bits(&normalize($a)) != bits(&normalize($b)) {
                return fail(format!("{}:encoding", $name), format!("{} differs between the NaN and the None encoding of {:?}", $name, c.x));
            }
        };
    }
    same!("vshift", sm::vshift(&f, n, fill), sm::vshift(&o, n, fill.map(Some)));
    same!("ffill", sm::ffill(&f, fill), sm::ffill(&o, fill.map(Some)));
    same!("bfill", sm::bfill(&f, fill), sm::bfill(&o, fill.map(Some)));
    same!("fill", sm::fill(&f, 3.25), sm::fill(&o, Some(3.25)));
    same!("vclip", sm::vclip(&f, -2.0, 5.0), sm::vclip(&o, Some(-2.0), Some(5.0)));
    same!("vclip(null lower)", sm::vclip(&f, f64::NAN, 5.0), sm::vclip(&o, None, Some(5.0)));
    same!("vabs", sm::vabs(&f), sm::vabs(&o));
    let (pct, rev) = (c.w % 2 == 0, c.w % 3 == 0);
    let r1: Vec<f64> = f.vrank(pct, rev);
    let r2: Vec<Option<f64>> = o.vrank(pct, rev);
    let r3: Vec<Option<f64>> = f.vrank(pct, rev);
    same!("vrank", r1.clone(), r2);
    same!("vrank(option output)", r1, r3);
    let k = c.w % (c.x.len() + 2);
    for sort in [false, true] {
        let a: Vec<i32> = Iterator::collect(f.varg_partition(k, sort, rev));
        let b: Vec<i32> = Iterator::collect(o.varg_partition(k, sort, rev));
        if sort && a != b {
            return fail("varg_partition:encoding", format!("varg_partition(k={}, sort) differs between encodings of {:?}: {:?} vs {:?}", k, c.x, a, b));
        }
        let a: Vec<f64> = Iterator::collect(f.vpartition(k, sort, rev));
        let b: Vec<Option<f64>> = Iterator::collect(o.vpartition(k, sort, rev));
        if sort {
            same!("vpartition", a, b);
        }
    }
    // aggregations
    let mp = c.mp.unwrap_or(0);
    macro_rules! same_f {
        ($name:expr, $a:expr, $b:expr) => {
            if fb($a) != fb($b) {
                return fail(format!("{}:encoding", $name), format!("{} = {:?} for the NaN encoding but {:?} for the None encoding of {:?}", $name, $a, $b, c.x));
            }
        };
    }
    if sa::count_valid(f.clone()) != sa::count_valid(o.clone()) || sa::count_none(f.clone()) != sa::count_none(o.clone()) {
        return fail("count:encoding", "count_valid / count_none differ between encodings");
    }
    same_f!("vsum", sa::vsum(f.clone()).unwrap_or(f64::NAN), sa::vsum(o.clone()).unwrap_or(f64::NAN));
    same_f!("vmean", sa::vmean(f.clone()), sa::vmean(o.clone()));
    same_f!("vvar", sa::vvar(f.clone(), mp), sa::vvar(o.clone(), mp));
    same_f!("vstd", sa::vstd(f.clone(), mp), sa::vstd(o.clone(), mp));
    same_f!("vskew", sa::vskew(f.clone(), mp), sa::vskew(o.clone(), mp));
    same_f!("vkurt", sa::vkurt(f.clone(), mp), sa::vkurt(o.clone(), mp));
    same_f!("vmax", sa::vmax(f.clone()).unwrap_or(f64::NAN), sa::vmax(o.clone()).unwrap_or(f64::NAN));
    same_f!("vmin", sa::vmin(f.clone()).unwrap_or(f64::NAN), sa::vmin(o.clone()).unwrap_or(f64::NAN));
    if sa::vargmax(f.clone()) != sa::vargmax(o.clone()) || sa::vargmin(f.clone()) != sa::vargmin(o.clone()) {
        return fail("vargmax:encoding", "vargmax / vargmin differ between encodings");
    }
    same_f!("vfirst", sa::vfirst(f.clone()).unwrap_or(f64::NAN), sa::vfirst(o.clone()).flatten().unwrap_or(f64::NAN));
    same_f!("vlast", sa::vlast(f.clone()).unwrap_or(f64::NAN), sa::vlast(o.clone()).flatten().unwrap_or(f64::NAN));
    for (m, q) in [(QuantileMethod::Linear, 0.37), (QuantileMethod::Lower, 0.5), (QuantileMethod::Higher, 0.81), (QuantileMethod::MidPoint, 0.25)] {
        same_f!("vquantile", f.vquantile(q, m).unwrap_or(f64::NAN), o.vquantile(q, m).unwrap_or(f64::NAN));
    }
    same_f!("vmedian", f.vmedian(), o.vmedian());
    let score = c.x.iter().flatten().next().cloned().unwrap_or(0.5);
    same_f!("vpercentile_of", f.clone().vpercentile_of(score, PercentileOfMethod::Rank), o.clone().vpercentile_of(Some(score), PercentileOfMethod::Rank));
    same_f!("vpercentile_of(null score)", f.clone().vpercentile_of(f64::NAN, PercentileOfMethod::Weak), o.clone().vpercentile_of(None, PercentileOfMethod::Weak));
    // two-series with itself shifted
    let g: Vec<f64> = sm::vshift(&f, 1, None);
    let go: Vec<Option<f64>> = sm::vshift(&o, 1, None);
    same_f!("vcov", sa::vcov(f.clone(), g.clone(), mp), sa::vcov(o.clone(), go.clone(), mp).unwrap_or(f64::NAN));
    same_f!("vcorr_pearson", sa::vcorr_pearson(f.clone(), g.clone(), mp), sa::vcorr_pearson(o.clone(), go.clone(), mp));
    same_f!("vcorr(Spearman)", f.vcorr(&g, c.mp, CorrMethod::Spearman), o.vcorr(&go, c.mp, CorrMethod::Spearman).unwrap_or(f64::NAN));
    // the NaN encoding with sign-bit NaNs against the canonical NaN encoding
    let nulls = c.x.iter().filter(|v| v.is_none()).count();
    if nulls >= 1 {
        let h = neg_nan_encoding(&c.x, c.w % 2 == 0);
        same!("vshift(-NaN)", sm::vshift(&f, n, fill), sm::vshift(&h, n, fill));
        same!("ffill(-NaN)", sm::ffill(&f, fill), sm::ffill(&h, fill));
        same!("bfill(-NaN)", sm::bfill(&f, fill), sm::bfill(&h, fill));
        same!("fill(-NaN)", sm::fill(&f, 3.25), sm::fill(&h, 3.25));
        same!("vclip(-NaN)", sm::vclip(&f, -2.0, 5.0), sm::vclip(&h, -2.0, 5.0));
        same!("vclip(-NaN lower)", sm::vclip(&f, f64::NAN, 5.0), sm::vclip(&h, neg_nan(), 5.0));
        same!("vabs(-NaN)", sm::vabs(&f), sm::vabs(&h));
        let r1: Vec<f64> = f.vrank(pct, rev);
        let r2: Vec<f64> = h.vrank(pct, rev);
        same!("vrank(-NaN)", r1, r2);
        for sort in [false, true] {
            let a: Vec<i32> = Iterator::collect(f.varg_partition(k, sort, rev));
            let b: Vec<i32> = Iterator::collect(h.varg_partition(k, sort, rev));
            if sort && a != b {
                return fail("varg_partition(-NaN):encoding", format!("varg_partition(k={}, sort) differs between NaN and sign-bit NaN encodings of {:?}: {:?} vs {:?}", k, c.x, a, b));
            }
            let a: Vec<f64> = Iterator::collect(f.vpartition(k, sort, rev));
            let b: Vec<f64> = Iterator::collect(h.vpartition(k, sort, rev));
            if sort {
                same!("vpartition(-NaN)", a, b);
            }
        }
        if sa::count_valid(f.clone()) != sa::count_valid(h.clone()) || sa::count_none(f.clone()) != sa::count_none(h.clone()) {
            return fail("count(-NaN):encoding", "count_valid / count_none differ between NaN and sign-bit NaN");
        }
        same_f!("vsum(-NaN)", sa::vsum(f.clone()).unwrap_or(f64::NAN), sa::vsum(h.clone()).unwrap_or(f64::NAN));
        same_f!("vmean(-NaN)", sa::vmean(f.clone()), sa::vmean(h.clone()));
        same_f!("vvar(-NaN)", sa::vvar(f.clone(), mp), sa::vvar(h.clone(), mp));
        same_f!("vskew(-NaN)", sa::vskew(f.clone(), mp), sa::vskew(h.clone(), mp));
        same_f!("vkurt(-NaN)", sa::vkurt(f.clone(), mp), sa::vkurt(h.clone(), mp));
        same_f!("vmax(-NaN)", sa::vmax(f.clone()).unwrap_or(f64::NAN), sa::vmax(h.clone()).unwrap_or(f64::NAN));
        same_f!("vmin(-NaN)", sa::vmin(f.clone()).unwrap_or(f64::NAN), sa::vmin(h.clone()).unwrap_or(f64::NAN));
        if sa::vargmax(f.clone()) != sa::vargmax(h.clone()) || sa::vargmin(f.clone()) != sa::vargmin(h.clone()) {
            return fail("vargmax(-NaN):encoding", "vargmax / vargmin differ between NaN and sign-bit NaN");
        }
        same_f!("vfirst(-NaN)", sa::vfirst(f.clone()).unwrap_or(f64::NAN), sa::vfirst(h.clone()).unwrap_or(f64::NAN));
        same_f!("vlast(-NaN)", sa::vlast(f.clone()).unwrap_or(f64::NAN), sa::vlast(h.clone()).unwrap_or(f64::NAN));
        for (m, q) in [(QuantileMethod::Linear, 0.37), (QuantileMethod::Lower, 0.5), (QuantileMethod::Higher, 0.81), (QuantileMethod::MidPoint, 0.25)] {
            same_f!("vquantile(-NaN)", f.vquantile(q, m).unwrap_or(f64::NAN), h.vquantile(q, m).unwrap_or(f64::NAN));
        }
        same_f!("vmedian(-NaN)", f.vmedian(), h.vmedian());
        same_f!("vpercentile_of(-NaN)", f.clone().vpercentile_of(score, PercentileOfMethod::Rank), h.clone().vpercentile_of(score, PercentileOfMethod::Rank));
        let gh: Vec<f64> = sm::vshift(&h, 1, None);
        same_f!("vcov(-NaN)", sa::vcov(f.clone(), g.clone(), mp), sa::vcov(h.clone(), gh.clone(), mp));
        same_f!("vcorr_pearson(-NaN)", sa::vcorr_pearson(f.clone(), g.clone(), mp), sa::vcorr_pearson(h.clone(), gh.clone(), mp));
        same_f!("vcorr(Spearman,-NaN)", f.vcorr(&g, c.mp, CorrMethod::Spearman), h.vcorr(&gh, c.mp, CorrMethod::Spearman));
        obs.class("sign_bit_nan");
    }
    obs.set_nontrivial(nulls >= 1 && nulls + 2 <= c.x.len());
    Ok(())
}

/// relation 1 for the two-series rolling functions: every combination of NaN / None encodings of
/// the two inputs, and integer inputs when the data are integer valued and null-free
fn encoding_rolling2(c: &Roll2Case, obs: &mut Obs) -> CheckResult {
    use tvh::sut;
    const S2: [Stat2; 7] = [Stat2::Cov, Stat2::Corr, Stat2::RegxAlpha, Stat2::RegxBeta, Stat2::RegxResidMean, Stat2::RegxResidStd, Stat2::RegxResidSkew];
    let stat = S2[c.w % 7];
    let name = format!("ts_v{}", stat.name());
    let (af, bf): (Vec<f64>, Vec<f64>) = (materialize(&c.x), materialize(&c.y));
    let (ao, bo): (Vec<Option<f64>>, Vec<Option<f64>>) = (materialize(&c.x), materialize(&c.y));
    let len = af.len();
    let run_ff = |out_buf: bool| sut::via_vec(len, out_buf, |buf| sut::roll2::<_, f64, _, f64, Vec<f64>, f64>(&af, &bf, stat, c.w, c.mp, buf));
    let base = normalize(run_ff(false).map_err(|e| Fail { sig: format!("{}:out-path", name), detail: e })?);
    let mut variants: Vec<(&str, Series)> = vec![];
    variants.push(("caller buffer", normalize(run_ff(true).map_err(|e| Fail { sig: format!("{}:out-path", name), detail: e })?)));
    variants.push(("Option x Option", normalize(sut::via_vec(len, c.out_buf, |buf| sut::roll2::<_, Option<f64>, _, Option<f64>, Vec<f64>, f64>(&ao, &bo, stat, c.w, c.mp, buf)).map_err(|e| Fail { sig: format!("{}:out-path", name), detail: e })?)));
    variants.push(("f64 x Option", normalize(sut::via_vec(len, c.out_buf, |buf| sut::roll2::<_, f64, _, Option<f64>, Vec<f64>, f64>(&af, &bo, stat, c.w, c.mp, buf)).map_err(|e| Fail { sig: format!("{}:out-path", name), detail: e })?)));
    variants.push(("Option x f64", normalize(sut::via_vec(len, c.out_buf, |buf| sut::roll2::<_, Option<f64>, _, f64, Vec<f64>, f64>(&ao, &bf, stat, c.w, c.mp, buf)).map_err(|e| Fail { sig: format!("{}:out-path", name), detail: e })?)));
    variants.push(("Option<f64> output", normalize(sut::via_vec(len, c.out_buf, |buf| sut::roll2::<_, f64, _, f64, Vec<Option<f64>>, Option<f64>>(&af, &bf, stat, c.w, c.mp, buf)).map_err(|e| Fail { sig: format!("{}:out-path", name), detail: e })?)));
    let (an, bn) = (neg_nan_encoding(&c.x, c.w % 2 == 0), neg_nan_encoding(&c.y, c.w % 3 == 0));
    variants.push(("sign-bit NaN nulls", normalize(sut::via_vec(len, c.out_buf, |buf| sut::roll2::<_, f64, _, f64, Vec<f64>, f64>(&an, &bn, stat, c.w, c.mp, buf)).map_err(|e| Fail { sig: format!("{}:out-path", name), detail: e })?)));
    let int_ok = c.x.iter().chain(c.y.iter()).all(|v| v.map(|x| x.fract() == 0.0 && x.abs() < 1e6).unwrap_or(false));
    if int_ok {
        let (ai, bi): (Vec<i32>, Vec<i64>) = (materialize(&c.x), materialize(&c.y));
        variants.push(("i32 x i64", normalize(sut::via_vec(len, c.out_buf, |buf| sut::roll2::<_, i32, _, i64, Vec<f64>, f64>(&ai, &bi, stat, c.w, c.mp, buf)).map_err(|e| Fail { sig: format!("{}:out-path", name), detail: e })?)));
        obs.class("integer_valued");
    }
    for (what, v) in &variants {
        if bits(v) != bits(&base) {
            let i = (0..base.len().min(v.len())).find(|i| bits(v)[*i] != bits(&base)[*i]);
            return fail(format!("{}:encoding", name), format!("{} (w {}, mp {:?}) with {} differs from f64 x f64 at {:?}: {:?} vs {:?}", name, c.w, c.mp, what, i, i.map(|i| v[i]), i.map(|i| base[i])));
        }
    }
    // f32 output is the rounded f64 output
    let o32 = normalize(sut::via_vec(len, c.out_buf, |buf| sut::roll2::<_, f64, _, Option<f64>, Vec<f32>, f32>(&af, &bo, stat, c.w, c.mp, buf)).map_err(|e| Fail { sig: format!("{}:out-path", name), detail: e })?);
    let want32: Series = base.iter().map(|v| v.map(|x| x as f32 as f64)).collect();
    if bits(&o32) != bits(&want32) {
        return fail(format!("{}:output-encoding:f32", name), format!("{}: f32 output is not the rounded f64 output", name));
    }
    let nulls = c.x.iter().zip(c.y.iter()).filter(|(a, b)| a.is_none() != b.is_none()).count();
    obs.set_nontrivial(nulls >= 1 && len > c.w);
    Ok(())
}

// ---------------------------------------------------------------------------------------------
// relation 2: null transparency

#[derive(Clone, Debug, Serialize, Deserialize)]
struct InsCase {
    x: Series,
    y: Series,
    /// positions (in the output) at which nulls are inserted, and what goes into the partner
    ins: Vec<(usize, u8)>,
    mp: usize,
    opt: bool,
}

fn ins_case(tier: Tier) -> impl Strategy<Value = InsCase> {
    (raw_pair(len_strategy(tier, 24, 120)), proptest::collection::vec((any::<u16>(), any::<u8>()), 0..8), any::<u16>(), any::<bool>()).prop_map(|(rp, raw_ins, ms, opt)| {
        let (x, y, _) = pair_of(&rp);
        let len = x.len();
        let mut ins: Vec<(usize, u8)> = raw_ins.into_iter().map(|(p, k)| (if k % 5 == 0 { 0 } else { idx(p, len + 1) }, k)).collect();
        ins.sort();
        InsCase {
            mp: idx(ms, len + 2),
            x,
            y,
            ins,
            opt,
        }
    })
}

/// insert nulls: returns (x', y', index map old -> new)
fn insert(c: &InsCase) -> (Series, Series, Vec<usize>) {
    let len = c.x.len();
    let mut x2 = Vec::new();
    let mut y2 = Vec::new();
    let mut map = Vec::with_capacity(len);
    let mut k = 0;
    for i in 0..=len {
        while k < c.ins.len() && c.ins[k].0 == i {
            match c.ins[k].1 % 3 {
                0 => {
                    x2.push(None);
                    y2.push(Some(42.5)); // arbitrary partner value: pairwise deletion
                },
                1 => {
                    x2.push(Some(-17.25));
                    y2.push(None);
                },
                _ => {
                    x2.push(None);
                    y2.push(None);
                },
            }
            k += 1;
        }
        if i < len {
            map.push(x2.len());
            x2.push(c.x[i]);
            y2.push(c.y[i]);
        }
    }
    (x2, y2, map)
}

fn transparency(c: &InsCase, obs: &mut Obs) -> CheckResult {
    let (x2, y2, map) = insert(c);
    // single-series functions only see x: keep the "value in x, null in y" insertions out of x
    let x1: Series = {
        let mut v = Vec::new();
        let mut k = 0;
        for i in 0..=c.x.len() {
            while k < c.ins.len() && c.ins[k].0 == i {
                if c.ins[k].1 % 3 != 1 {
                    v.push(None);
                }
                k += 1;
            }
            if i < c.x.len() {
                v.push(c.x[i]);
            }
        }
        v
    };
    let inserted1 = x1.len() - c.x.len();
    macro_rules! both {
        ($name:expr, |$d:ident| $e:expr) => {{
            let (a, b) = if c.opt {
                let $d: Vec<Option<f64>> = materialize(&c.x);
                let a = $e;
                let $d: Vec<Option<f64>> = materialize(&x1);
                (a, $e)
            } else {
                let $d: Vec<f64> = materialize(&c.x);
                let a = $e;
                let $d: Vec<f64> = materialize(&x1);
                (a, $e)
            };
            if fb(a) != fb(b) {
                return fail(format!("{}:transparency", $name), format!("{} = {:?} on {:?} but {:?} after inserting nulls: {:?}", $name, a, c.x, b, x1));
            }
        }};
    }
    let mp = c.mp;
    both!("count_valid", |d| sa::count_valid(d.clone()) as f64);
    both!("vsum", |d| sa::vsum(d.clone()).and_then(|v| v.to_logical()).unwrap_or(f64::NAN));
    both!("vmean", |d| sa::vmean(d.clone()));
    both!("vvar", |d| sa::vvar(d.clone(), mp));
    both!("vstd", |d| sa::vstd(d.clone(), mp));
    both!("vskew", |d| sa::vskew(d.clone(), mp));
    both!("vkurt", |d| sa::vkurt(d.clone(), mp));
    both!("vmin", |d| sa::vmin(d.clone()).and_then(|v| v.to_logical()).unwrap_or(f64::NAN));
    both!("vmax", |d| sa::vmax(d.clone()).and_then(|v| v.to_logical()).unwrap_or(f64::NAN));
    both!("vfirst", |d| sa::vfirst(d.clone()).and_then(|v| v.to_logical()).unwrap_or(f64::NAN));
    both!("vlast", |d| sa::vlast(d.clone()).and_then(|v| v.to_logical()).unwrap_or(f64::NAN));
    for (mname, m) in [("linear", QuantileMethod::Linear), ("lower", QuantileMethod::Lower), ("higher", QuantileMethod::Higher), ("midpoint", QuantileMethod::MidPoint)] {
        for q in [0.0, 0.25, 0.5, 0.9, 1.0] {
            both!(format!("vquantile:{}", mname), |d| d.vquantile(q, m).unwrap_or(f64::NAN));
        }
    }
    both!("vmedian", |d| d.vmedian());
    let score = c.x.iter().flatten().next().cloned().unwrap_or(0.5);
    for (mname, m) in [("rank", PercentileOfMethod::Rank), ("weak", PercentileOfMethod::Weak), ("strict", PercentileOfMethod::Strict)] {
        let pa = materialize::<Option<f64>>(&c.x).vpercentile_of(Some(score), m);
        let pb = materialize::<Option<f64>>(&x1).vpercentile_of(Some(score), m);
        let pc = materialize::<f64>(&x1).vpercentile_of(score, m);
        if fb(pa) != fb(pb) || fb(pa) != fb(pc) {
            return fail(format!("vpercentile_of:{}:transparency", mname), format!("vpercentile_of({}) = {:?} before and {:?} / {:?} after inserting nulls", score, pa, pb, pc));
        }
    }
    // counts of nulls grow by exactly the number inserted
    let cn = |s: &Series| sa::count_none(materialize::<f64>(s));
    if cn(&x1) != cn(&c.x) + inserted1 {
        return fail("count_none:transparency", format!("count_none {} -> {} after inserting {} nulls", cn(&c.x), cn(&x1), inserted1));
    }
    // index-valued results move with the insertion map
    let xf: Vec<f64> = materialize(&c.x);
    let x1f: Vec<f64> = materialize(&x1);
    let map1: Vec<usize> = {
        let mut m = Vec::new();
        let mut k = 0;
        let mut pos = 0;
        for i in 0..c.x.len() {
            while k < c.ins.len() && c.ins[k].0 == i {
                if c.ins[k].1 % 3 != 1 {
                    pos += 1;
                }
                k += 1;
            }
            m.push(pos);
            pos += 1;
        }
        m
    };
    if sa::vargmax(x1f.clone()) != sa::vargmax(xf.clone()).map(|i| map1[i]) || sa::vargmin(x1f.clone()) != sa::vargmin(xf.clone()).map(|i| map1[i]) {
        return fail("vargmax:transparency", format!("vargmax/vargmin of {:?} = {:?}/{:?}; after insertion {:?}/{:?}", c.x, sa::vargmax(xf.clone()), sa::vargmin(xf), sa::vargmax(x1f.clone()), sa::vargmin(x1f)));
    }
    // two-series functions: pairwise deletion
    let (af, bf): (Vec<f64>, Vec<f64>) = (materialize(&c.x), materialize(&c.y));
    let (a2, b2): (Vec<f64>, Vec<f64>) = (materialize(&x2), materialize(&y2));
    let pairs = [
        ("vcov", sa::vcov(af.clone(), bf.clone(), mp), sa::vcov(a2.clone(), b2.clone(), mp)),
        ("vcorr_pearson", sa::vcorr_pearson(af.clone(), bf.clone(), mp), sa::vcorr_pearson(a2.clone(), b2.clone(), mp)),
    ];
    for (name, p, q) in pairs {
        if fb(p) != fb(q) {
            return fail(format!("{}:transparency", name), format!("{} = {:?} before and {:?} after inserting null pairs", name, p, q));
        }
    }
    let _ = map;
    // rank-based correlation: nulls inserted in both series at the same positions
    let both_null: Vec<usize> = c.ins.iter().filter(|k| k.1 % 3 == 2).map(|k| k.0).collect();
    if both_null.len() == c.ins.len() {
        let sp1 = af.vcorr(&bf, Some(mp), CorrMethod::Spearman);
        let sp2 = a2.vcorr(&b2, Some(mp), CorrMethod::Spearman);
        if fb(sp1) != fb(sp2) {
            return fail("spearman:transparency", format!("Spearman {:?} before and {:?} after inserting joint nulls", sp1, sp2));
        }
        obs.class("spearman_checked");
    }
    let valid = c.x.iter().filter(|v| v.is_some()).count();
    let first_valid = c.x.iter().position(|v| v.is_some());
    let before_first = first_valid.map(|f| c.ins.iter().any(|k| k.0 <= f && k.1 % 3 != 1)).unwrap_or(false);
    let between = first_valid.map(|f| c.ins.iter().any(|k| k.0 > f && k.1 % 3 != 1)).unwrap_or(false);
    obs.set_nontrivial(valid >= 2 && before_first && between);
    obs.class_if(c.ins.is_empty(), "nothing_inserted");
    Ok(())
}

fn main() {
    let _ = Stat2::Cov;
    let mut p = Property::new(
        "C08",
        "relation 1 (encoding): a logical series is rendered as Vec<f64> with NaN, Vec<Option<f64>> with None (and i32 / Option<i32> when integer valued); each of 23 null-aware rolling entry points (chosen by the case), the mapping functions (vshift, ffill, bfill, fill, vclip incl. a null bound, vabs, vrank, sorted partitions) and the null-aware aggregations (counts, sums, moments, extrema, arg-extrema, first / last, quantiles, median, percentile_of, cov, corr, Spearman) must give bit-identical results after decoding; output requested as f64 / Option<f64> / f32 / Option<i32> must be the same values re-encoded (rounded / cast). \
         relation 2 (transparency): up to 7 nulls are inserted at generated positions (weight on position 0); single-series aggregations and order statistics are bitwise unchanged, count_none grows by the number inserted, arg-extrema move with the insertion map; for two-series functions the inserted rows are (null, value), (value, null) or (null, null): cov / corr unchanged (pairwise deletion), Spearman unchanged for jointly inserted nulls. \
         Non-trivial: (1) at least one null and enough values; (2) >= 2 valid elements with a null inserted before the first valid element and one after it; distinct = distinct serialised cases",
    )
    .assume("canonical nulls only: NaN for floats, None for options (DESIGN 5.4)");
    let ins: &'static [InT] = &[InT::F64];
    let outs: &'static [OutT] = &[OutT::F64];
    p.add(sub(
        "encoding:rolling",
        20000,
        600000,
        move |tier| {
            (roll_case_of(tier, ins, outs, 40, 200, 1, ALL_CLASSES), 0usize..23).prop_map(|(mut c, k)| {
                c.p = k as f64;
                c
            })
        },
        encoding_rolling,
    ));
    p.add(sub("encoding:map_agg", 10000, 300000, move |tier| roll_case_of(tier, ins, outs, 30, 120, 1, ALL_CLASSES), encoding_map_agg));
    p.add(sub("encoding:rolling_two_series", 10000, 300000, |tier| roll2_case(tier, 40, 200, 1), encoding_rolling2));
    p.add(sub("transparency", 12000, 400000, ins_case, transparency));
    main_for(p);
}
