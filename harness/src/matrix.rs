//! Evaluation of rolling entry points on any backend x output container x output path.

use std::collections::VecDeque;
use std::marker::PhantomData;

use tevec::export::ndarray::Array1;
use tevec::prelude::{Cast, IsNone, Number, TIter, Vec1View};

use crate::backends::*;
use crate::conv::{normalize, OutElem};
use crate::gen::Series;
use crate::model::{Stat, Stat2};
use crate::sut;

#[derive(Clone, Copy, Debug)]
pub struct Req {
    pub w: usize,
    pub mp: Option<usize>,
    pub out_buf: bool,
    pub out_kind: OutKind,
}

struct ValidFn<U, O> {
    stat: Stat,
    req: Req,
    _p: PhantomData<(U, O)>,
}

impl<T, U, O> ViewFn<T> for ValidFn<U, O>
where
    T: IsNone,
    T::Inner: Number,
    U: OutElem,
    O: OutC<U>,
    f64: Cast<U>,
    Option<T::Inner>: Cast<U>,
{
    type Out = Result<(Series, &'static str), String>;
    fn call<V: Vec1View<T>>(&mut self, v: &V, label: &'static str) -> Self::Out {
        let (stat, req) = (self.stat, self.req);
        let out: Vec<U> = run_out::<O, U, _>(v.len(), req.out_buf, |buf| sut::roll_valid::<V, T, O, U>(v, stat, req.w, req.mp, buf))?;
        Ok((normalize(out), label))
    }
}

struct VFdiffFn<U, O> {
    d: f64,
    req: Req,
    _p: PhantomData<(U, O)>,
}

impl<T, U, O> ViewFnS<T> for VFdiffFn<U, O>
where
    T: IsNone,
    T::Inner: Number,
    U: OutElem,
    O: OutC<U>,
    f64: Cast<U>,
{
    type Out = Result<(Series, &'static str), String>;
    fn call<V: Vec1View<T>>(&mut self, v: &V, label: &'static str) -> Self::Out
    where
        for<'a> V::SliceOutput<'a>: TIter<T>,
    {
        let (d, req) = (self.d, self.req);
        let out: Vec<U> = run_out::<O, U, _>(v.len(), req.out_buf, |buf| sut::roll_vfdiff::<V, T, O, U>(v, d, req.w, req.mp, buf))?;
        Ok((normalize(out), label))
    }
}

struct PlainFn<U, O> {
    stat: Stat,
    req: Req,
    _p: PhantomData<(U, O)>,
}

impl<T, U, O> ViewFn<T> for PlainFn<U, O>
where
    T: Number,
    U: OutElem,
    O: OutC<U>,
    f64: Cast<U>,
{
    type Out = Result<(Series, &'static str), String>;
    fn call<V: Vec1View<T>>(&mut self, v: &V, label: &'static str) -> Self::Out {
        let (stat, req) = (self.stat, self.req);
        let out: Vec<U> = run_out::<O, U, _>(v.len(), req.out_buf, |buf| sut::roll_plain::<V, T, O, U>(v, stat, req.w, req.mp, buf))?;
        Ok((normalize(out), label))
    }
}

struct FdiffFn<U, O> {
    d: f64,
    req: Req,
    _p: PhantomData<(U, O)>,
}

impl<T, U, O> ViewFnS<T> for FdiffFn<U, O>
where
    T: Cast<f64> + Clone,
    U: OutElem,
    O: OutC<U>,
    f64: Cast<U>,
{
    type Out = Result<(Series, &'static str), String>;
    fn call<V: Vec1View<T>>(&mut self, v: &V, label: &'static str) -> Self::Out
    where
        for<'a> V::SliceOutput<'a>: TIter<T>,
    {
        let (d, req) = (self.d, self.req);
        let out: Vec<U> = run_out::<O, U, _>(v.len(), req.out_buf, |buf| sut::roll_fdiff::<V, T, O, U>(v, d, req.w, buf))?;
        Ok((normalize(out), label))
    }
}

macro_rules! by_outkind {
    ($kind:expr, $f:ident, [$($G:ty),*], $U:ty, ($($a:expr),*)) => {
        match $kind {
            OutKind::Vec => $f::<$($G,)* $U, Vec<$U>>($($a),*),
            OutKind::Deque => $f::<$($G,)* $U, VecDeque<$U>>($($a),*),
            OutKind::Nd => $f::<$($G,)* $U, Array1<$U>>($($a),*),
        }
    };
}

fn valid_with<T, U, O>(bk: Backend, data: &[T], filler: T, stat: Stat, req: Req) -> Option<Result<(Series, &'static str), String>>
where
    T: IsNone + 'static,
    T::Inner: Number,
    U: OutElem,
    O: OutC<U>,
    f64: Cast<U>,
    Option<T::Inner>: Cast<U>,
{
    match stat {
        Stat::Fdiff(d) => with_backend_s(
            bk,
            data,
            filler,
            &mut VFdiffFn::<U, O> {
                d,
                req,
                _p: PhantomData,
            },
        ),
        _ => Some(with_backend(
            bk,
            data,
            filler,
            &mut ValidFn::<U, O> {
                stat,
                req,
                _p: PhantomData,
            },
        )),
    }
}

fn plain_with<T, U, O>(bk: Backend, data: &[T], filler: T, stat: Stat, req: Req) -> Option<Result<(Series, &'static str), String>>
where
    T: Number,
    U: OutElem,
    O: OutC<U>,
    f64: Cast<U>,
{
    match stat {
        Stat::Fdiff(d) => with_backend_s(
            bk,
            data,
            filler,
            &mut FdiffFn::<U, O> {
                d,
                req,
                _p: PhantomData,
            },
        ),
        _ => Some(with_backend(
            bk,
            data,
            filler,
            &mut PlainFn::<U, O> {
                stat,
                req,
                _p: PhantomData,
            },
        )),
    }
}

/// Null-aware statistic on any backend. Returns None when the backend cannot run it (fdiff on
/// VecDeque: its slice type is not iterable).
pub fn eval_valid_on<T, U>(bk: Backend, data: &[T], filler: T, stat: Stat, req: Req) -> Option<Result<(Series, &'static str), String>>
where
    T: IsNone + 'static,
    T::Inner: Number,
    U: OutElem,
    f64: Cast<U>,
    Option<T::Inner>: Cast<U>,
{
    by_outkind!(req.out_kind, valid_with, [T], U, (bk, data, filler, stat, req))
}

pub fn eval_plain_on<T, U>(bk: Backend, data: &[T], filler: T, stat: Stat, req: Req) -> Option<Result<(Series, &'static str), String>>
where
    T: Number,
    U: OutElem,
    f64: Cast<U>,
{
    by_outkind!(req.out_kind, plain_with, [T], U, (bk, data, filler, stat, req))
}

// two-series: the second series is materialised in the same backend kind (nested ViewFn)

struct Outer2<'b, T2, U, O> {
    stat: Stat2,
    req: Req,
    bk2: Backend,
    other: &'b [T2],
    filler2: T2,
    _p: PhantomData<(U, O)>,
}

struct Inner2<'v, V1, T1, U, O> {
    stat: Stat2,
    req: Req,
    v1: &'v V1,
    _p: PhantomData<(T1, U, O)>,
}

impl<'v, V1, T1, T2, U, O> ViewFn<T2> for Inner2<'v, V1, T1, U, O>
where
    V1: Vec1View<T1>,
    T1: IsNone,
    T1::Inner: Number,
    T2: IsNone,
    T2::Inner: Number,
    U: OutElem,
    O: OutC<U>,
    f64: Cast<U>,
{
    type Out = Result<Series, String>;
    fn call<V2: Vec1View<T2>>(&mut self, v2: &V2, _label: &'static str) -> Self::Out {
        let (stat, req, v1) = (self.stat, self.req, self.v1);
        let out: Vec<U> = run_out::<O, U, _>(v1.len(), req.out_buf, |buf| sut::roll2::<V1, T1, V2, T2, O, U>(v1, v2, stat, req.w, req.mp, buf))?;
        Ok(normalize(out))
    }
}

impl<'b, T1, T2, U, O> ViewFn<T1> for Outer2<'b, T2, U, O>
where
    T1: IsNone,
    T1::Inner: Number,
    T2: IsNone + Clone,
    T2::Inner: Number,
    U: OutElem,
    O: OutC<U>,
    f64: Cast<U>,
{
    type Out = Result<(Series, &'static str), String>;
    fn call<V1: Vec1View<T1>>(&mut self, v1: &V1, label: &'static str) -> Self::Out {
        let mut inner = Inner2::<V1, T1, U, O> {
            stat: self.stat,
            req: self.req,
            v1,
            _p: PhantomData,
        };
        let s = with_backend_lite(self.bk2, self.other, self.filler2.clone(), &mut inner)?;
        Ok((s, label))
    }
}

fn two_with<T1, T2, U, O>(bk: Backend, bk2: Backend, a: &[T1], b: &[T2], fa: T1, fb: T2, stat: Stat2, req: Req) -> Result<(Series, &'static str), String>
where
    T1: IsNone,
    T1::Inner: Number,
    T2: IsNone + Clone,
    T2::Inner: Number,
    U: OutElem,
    O: OutC<U>,
    f64: Cast<U>,
{
    with_backend(
        bk,
        a,
        fa,
        &mut Outer2::<T2, U, O> {
            stat,
            req,
            bk2,
            other: b,
            filler2: fb,
            _p: PhantomData,
        },
    )
}

/// Two-series statistic with the first series in `bk` and the second in `bk2`.
pub fn eval2_on<T1, T2, U>(bk: Backend, bk2: Backend, a: &[T1], b: &[T2], fa: T1, fb: T2, stat: Stat2, req: Req) -> Result<(Series, &'static str), String>
where
    T1: IsNone,
    T1::Inner: Number,
    T2: IsNone + Clone,
    T2::Inner: Number,
    U: OutElem,
    f64: Cast<U>,
{
    by_outkind!(req.out_kind, two_with, [T1, T2], U, (bk, bk2, a, b, fa, fb, stat, req))
}

struct Outer2All<'b, T2, U> {
    w: usize,
    mp: Option<usize>,
    bk2: Backend,
    other: &'b [T2],
    filler2: T2,
    _p: PhantomData<U>,
}

struct Inner2All<'v, V1, T1, U> {
    w: usize,
    mp: Option<usize>,
    v1: &'v V1,
    _p: PhantomData<(T1, U)>,
}

impl<'v, V1, T1, T2, U> ViewFn<T2> for Inner2All<'v, V1, T1, U>
where
    V1: Vec1View<T1>,
    T1: IsNone,
    T1::Inner: Number,
    T2: IsNone,
    T2::Inner: Number,
    U: OutElem,
    f64: Cast<U>,
{
    type Out = Vec<(U, U, U)>;
    fn call<V2: Vec1View<T2>>(&mut self, v2: &V2, _label: &'static str) -> Self::Out {
        sut::roll2_all::<V1, T1, V2, T2, Vec<(U, U, U)>, U>(self.v1, v2, self.w, self.mp)
    }
}

impl<'b, T1, T2, U> ViewFn<T1> for Outer2All<'b, T2, U>
where
    T1: IsNone,
    T1::Inner: Number,
    T2: IsNone + Clone,
    T2::Inner: Number,
    U: OutElem,
    f64: Cast<U>,
{
    type Out = (Vec<(U, U, U)>, &'static str);
    fn call<V1: Vec1View<T1>>(&mut self, v1: &V1, label: &'static str) -> Self::Out {
        let mut inner = Inner2All::<V1, T1, U> {
            w: self.w,
            mp: self.mp,
            v1,
            _p: PhantomData,
        };
        (with_backend_lite(self.bk2, self.other, self.filler2.clone(), &mut inner), label)
    }
}

/// `ts_vregx_all` (returns three series: alpha, beta, sse).
pub fn eval2_all_on<T1, T2, U>(bk: Backend, bk2: Backend, a: &[T1], b: &[T2], fa: T1, fb: T2, w: usize, mp: Option<usize>) -> ([Series; 3], &'static str)
where
    T1: IsNone,
    T1::Inner: Number,
    T2: IsNone + Clone,
    T2::Inner: Number,
    U: OutElem,
    f64: Cast<U>,
{
    let (r, label) = with_backend(
        bk,
        a,
        fa,
        &mut Outer2All::<T2, U> {
            w,
            mp,
            bk2,
            other: b,
            filler2: fb,
            _p: PhantomData,
        },
    );
    (
        [
            r.iter().map(|t| t.0.to_logical()).collect(),
            r.iter().map(|t| t.1.to_logical()).collect(),
            r.iter().map(|t| t.2.to_logical()).collect(),
        ],
        label,
    )
}
