//! Adapters onto the mapping functions (shift / diff / pct_change / fill / clip / cut / unique /
//! rank / partition). Results are collected with the *safe* std collector so that a wrong length
//! announcement cannot corrupt the harness.

use std::ops::Sub;

use tevec::prelude::*;

pub fn shift<T: Clone>(x: &[T], n: i32, fill: T) -> Vec<T> {
    let v = x.to_vec();
    let it = v.titer().shift(n, fill);
    Iterator::collect(it)
}

pub fn vshift<T: IsNone + Clone>(x: &[T], n: i32, fill: Option<T>) -> Vec<T> {
    let v = x.to_vec();
    let it = v.titer().vshift(n, fill);
    Iterator::collect(it)
}

pub fn vdiff<T>(x: &[T], n: i32, fill: Option<T>) -> Vec<T>
where
    T: IsNone + Clone + Sub<Output = T> + Zero,
{
    let v = x.to_vec();
    let it = v.vdiff(n, fill);
    Iterator::collect(it)
}

pub fn vpct_change<T>(x: &[T], n: i32) -> Vec<f64>
where
    T: IsNone + Clone + Cast<f64>,
{
    let v = x.to_vec();
    let it = v.vpct_change(n);
    Iterator::collect(it)
}

pub fn ffill<T: IsNone + Clone>(x: &[T], value: Option<T>) -> Vec<T> {
    let v = x.to_vec();
    Iterator::collect(v.titer().ffill(value))
}

pub fn bfill<T: IsNone + Clone>(x: &[T], value: Option<T>) -> Vec<T> {
    let v = x.to_vec();
    Iterator::collect(v.titer().bfill(value))
}

pub fn ffill_mask<T: IsNone + Clone, F: Fn(&T) -> bool>(x: &[T], mask: F, value: Option<T>) -> Vec<T> {
    let v = x.to_vec();
    Iterator::collect(v.titer().ffill_mask(mask, value))
}

pub fn bfill_mask<T: IsNone + Clone, F: Fn(&T) -> bool>(x: &[T], mask: F, value: Option<T>) -> Vec<T> {
    let v = x.to_vec();
    Iterator::collect(v.titer().bfill_mask(mask, value))
}

pub fn fill<T: IsNone + Clone>(x: &[T], value: T) -> Vec<T> {
    let v = x.to_vec();
    Iterator::collect(v.titer().fill(value))
}

pub fn fill_mask<T: IsNone + Clone, F: Fn(&T) -> bool>(x: &[T], mask: F, value: T) -> Vec<T> {
    let v = x.to_vec();
    Iterator::collect(v.titer().fill_mask(mask, value))
}

pub fn vclip<T: IsNone + Clone>(x: &[T], lower: T, upper: T) -> Vec<T>
where
    // the library only asks for PartialOrd; every element type the harness clips is numeric, and the
    // stronger bound keeps the harness compiling if the library's bound is tightened
    T::Inner: PartialOrd + Number,
{
    let v = x.to_vec();
    Iterator::collect(v.titer().vclip(lower, upper))
}

pub fn abs<T: Number>(x: &[T]) -> Vec<T> {
    let v = x.to_vec();
    Iterator::collect(MapBasic::abs(v.titer()))
}

pub fn vabs<T: IsNone + Clone>(x: &[T]) -> Vec<T>
where
    T::Inner: Number,
{
    let v = x.to_vec();
    Iterator::collect(v.titer().vabs())
}
