//! Checks that are shared between the proptest binaries and the libFuzzer targets: the byte
//! decoders live here so that a fuzz artefact can be replayed by `./check <ID> --replay <file>`.

use serde::{Deserialize, Serialize};
use tevec::export::ndarray::Array1;
use tevec::prelude::{unit, CollectTrustedToVec, DateTime, IsNone, MapBasic, MapValidBasic, TIter, TResult, Time, TimeDelta, TimeUnitTrait, ToTrustIter, TrustedLen, Vec1Collect, Vec1TryCollect};

use crate::conv::OutElem;
use crate::engine::{fail, CheckResult, Fail, Obs};
use crate::gen::Series;
use crate::model_map as mm;

pub const CAP_EXTRA: usize = 64;

pub const FORMATS: [&str; 11] = [
    "%Y-%m-%d %H:%M:%S",
    "%Y-%m-%d %H:%M:%S.%f",
    "%Y-%m-%d",
    "%Y%m%d",
    "%Y%m%d %H%M%S",
    "%d/%m/%Y",
    "%d/%m/%Y H%M%S",
    "%Y%m%d%H%M%S",
    "%d/%m/%YH%M%S",
    "%Y/%m/%d",
    "%Y/%m/%d %H:%M:%S",
];


pub const ALPHABET: [char; 26] = ['0', '1', '2', '5', '9', '+', '-', '.', ' ', 'n', 's', 'u', 'm', 'h', 'd', 'w', 'o', 'y', 'x', 'é', ':', '/', 'T', 'e', '7', '3'];

/// every parser entry point on one string; none may panic (a panic is caught by the engine and
/// reported with the panic site as signature)
pub fn all_parsers(s: &str) -> usize {
    let mut oks = 0;
    oks += TimeDelta::parse(s).is_ok() as usize;
    oks += s.parse::<TimeDelta>().is_ok() as usize;
    fn dt<U: TimeUnitTrait>(s: &str) -> usize
    where
        DateTime<U>: From<chrono::DateTime<chrono::Utc>>,
    {
        let mut oks = DateTime::<U>::parse(s, None).is_ok() as usize;
        oks += s.parse::<DateTime<U>>().is_ok() as usize;
        for f in FORMATS.iter() {
            oks += DateTime::<U>::parse(s, Some(f)).is_ok() as usize;
        }
        oks
    }
    oks += dt::<unit::Second>(s) + dt::<unit::Millisecond>(s) + dt::<unit::Microsecond>(s) + dt::<unit::Nanosecond>(s);
    oks += Time::parse(s, None).is_ok() as usize;
    oks += Time::parse(s, Some("%H:%M:%S")).is_ok() as usize;
    oks += Time::parse(s, Some("%H%M%S%.f")).is_ok() as usize;
    oks += s.parse::<Time>().is_ok() as usize;
    oks
}



fn bits_of<T: OutElem>(v: &[T]) -> Vec<u64> {
    v.iter().map(|t| t.bits()).collect()
}

/// Core oracle for a forward iterator: after every prefix of `npop` front pops the upper size
/// hint must equal the number of items still obtainable by safe iteration (and the lower bound).
pub fn hint_law_fwd<I, B>(name: &str, build: B, max_pops: usize) -> Result<usize, Fail>
where
    I: Iterator,
    B: Fn() -> I,
{
    let mut first_hint = 0usize;
    for p in 0..=max_pops {
        let mut it = build();
        let mut popped = 0;
        for _ in 0..p {
            if it.next().is_none() {
                break;
            }
            popped += 1;
        }
        if popped < p {
            break; // iterator exhausted before p pops: covered by smaller p
        }
        let (lo, hi) = it.size_hint();
        let h = match hi {
            Some(h) => h,
            None => return fail(format!("{}:no-upper-bound", name), format!("{}: size_hint {:?} has no upper bound after {} pops", name, (lo, hi), p)),
        };
        let cap = h.saturating_add(CAP_EXTRA);
        let mut count = 0usize;
        while count <= cap {
            if it.next().is_none() {
                break;
            }
            count += 1;
        }
        if count != h || lo != h {
            return fail(
                format!("{}:hint!=count{}", name, if p == 0 { "" } else { ":after-pops" }),
                format!("{}: after {} front pops size_hint = ({}, Some({})) but {}{} items follow", name, p, lo, h, if count > cap { "more than " } else { "" }, count),
            );
        }
        if p == 0 {
            first_hint = h;
        }
    }
    Ok(first_hint)
}

/// Variant for iterators whose lower bound is allowed to be smaller than the count (std's `Scan`
/// reports 0): the upper bound - the one the trusted consumers read - must equal the count.
pub fn hint_law_upper<I, B>(name: &str, build: B, max_pops: usize) -> Result<usize, Fail>
where
    I: Iterator,
    B: Fn() -> I,
{
    let mut first_hint = 0usize;
    for p in 0..=max_pops {
        let mut it = build();
        let mut popped = 0;
        for _ in 0..p {
            if it.next().is_none() {
                break;
            }
            popped += 1;
        }
        if popped < p {
            break;
        }
        let (lo, hi) = it.size_hint();
        let h = match hi {
            Some(h) => h,
            None => return fail(format!("{}:no-upper-bound", name), format!("{}: size_hint {:?} has no upper bound after {} pops", name, (lo, hi), p)),
        };
        let cap = h.saturating_add(CAP_EXTRA);
        let mut count = 0usize;
        while count <= cap {
            if it.next().is_none() {
                break;
            }
            count += 1;
        }
        if count != h || lo > count {
            return fail(format!("{}:hint!=count{}", name, if p == 0 { "" } else { ":after-pops" }), format!("{}: after {} front pops size_hint = ({}, Some({})) but {} items follow", name, p, lo, h, count));
        }
        if p == 0 {
            first_hint = h;
        }
    }
    Ok(first_hint)
}

/// Same for double-ended iterators with a script of front (true) / back (false) pops.
pub fn hint_law_bi<I, B>(name: &str, build: B, script: &[bool]) -> Result<usize, Fail>
where
    I: Iterator + DoubleEndedIterator,
    B: Fn() -> I,
{
    let mut first_hint = 0usize;
    for p in 0..=script.len() {
        let mut it = build();
        let mut ok = true;
        for s in &script[..p] {
            let r = if *s { it.next() } else { it.next_back() };
            if r.is_none() {
                ok = false;
                break;
            }
        }
        if !ok {
            break;
        }
        let (lo, hi) = it.size_hint();
        let h = match hi {
            Some(h) => h,
            None => return fail(format!("{}:no-upper-bound", name), format!("{}: no upper bound after {} pops", name, p)),
        };
        let cap = h.saturating_add(CAP_EXTRA);
        let mut count = 0usize;
        // drain alternating ends, which also exercises next_back on the remainder
        let mut front = true;
        while count <= cap {
            let r = if front { it.next() } else { it.next_back() };
            if r.is_none() {
                break;
            }
            front = !front;
            count += 1;
        }
        if count != h || lo != h {
            return fail(
                format!("{}:hint!=count{}", name, if p == 0 { "" } else { ":after-pops" }),
                format!("{}: after pops {:?} size_hint = ({}, Some({})) but {} items follow", name, &script[..p], lo, h, count),
            );
        }
        if p == 0 {
            first_hint = h;
        }
    }
    Ok(first_hint)
}

/// Run the trusted collectors (only called after the hint law held at p = 0) and compare with the
/// safely collected content.
pub fn collectors<I, T, B>(name: &str, build: B, expect_len: usize) -> CheckResult
where
    I: TrustedLen<Item = T>,
    T: OutElem + Clone + std::fmt::Debug + IsNone,
    B: Fn() -> I,
{
    let safe: Vec<T> = Iterator::collect(build());
    if safe.len() != expect_len {
        return fail(format!("{}:len", name), format!("{}: {} items, expected {}", name, safe.len(), expect_len));
    }
    let want = bits_of(&safe);
    let a: Vec<T> = build().collect_trusted_to_vec();
    let b: Vec<T> = build().collect_trusted_vec1();
    let c: std::collections::VecDeque<T> = build().collect_trusted_vec1();
    let d: Array1<T> = build().collect_trusted_vec1();
    let e: Vec<T> = build().collect_vec1_with_len(expect_len);
    let f: TResult<Vec<T>> = build().map(|v| Ok(v)).try_collect_trusted_vec1();
    let f = match f {
        Ok(f) => f,
        Err(e) => return fail(format!("{}:try-collect", name), format!("{}: try_collect_trusted_vec1 failed: {}", name, e)),
    };
    let c: Vec<T> = Iterator::collect(c.into_iter());
    let d: Vec<T> = d.to_vec();
    for (what, got) in [("collect_trusted_to_vec", &a), ("collect_trusted_vec1<Vec>", &b), ("collect_trusted_vec1<VecDeque>", &c), ("collect_trusted_vec1<Array1>", &d), ("collect_vec1_with_len", &e), ("try_collect_trusted_vec1", &f)] {
        if bits_of(got) != want {
            return fail(format!("{}:collector", name), format!("{}: {} returned {:?}, safe collection gives {:?}", name, what, got, safe));
        }
    }
    Ok(())
}


// ---------------------------------------------------------------------------------------------
// pipelines (C09)

#[derive(Clone, Debug, Serialize, Deserialize)]
pub enum POp {
    VShift(i32, Option<f64>),
    Shift(i32, f64),
    VAbs,
    Abs,
    Fill(f64),
    FFill(Option<f64>),
    Clip(Option<f64>, Option<f64>),
    FillNeg(f64),
    ToTrust,
}

#[derive(Clone, Debug, Serialize, Deserialize)]
pub struct PCase {
    pub x: Series,
    pub ops: Vec<POp>,
    pub pops: usize,
}

pub type DynIt<'a> = Box<dyn TrustedLen<Item = f64> + 'a>;

pub fn build_pipeline<'a>(d: &'a Vec<f64>, ops: &'a [POp]) -> DynIt<'a> {
    let mut it: DynIt<'a> = Box::new(d.titer());
    for op in ops {
        it = match op {
            POp::VShift(n, f) => it.vshift(*n, *f),
            POp::Shift(n, f) => it.shift(*n, *f),
            POp::VAbs => Box::new(it.vabs()),
            POp::Abs => Box::new(MapBasic::abs(it)),
            POp::Fill(f) => Box::new(it.fill(*f)),
            POp::FFill(f) => Box::new(it.ffill(*f)),
            POp::Clip(lo, hi) => it.vclip(lo.unwrap_or(f64::NAN), hi.unwrap_or(f64::NAN)),
            POp::FillNeg(f) => {
                let f = *f;
                Box::new(it.fill_mask(|v: &f64| *v < 0.0, f))
            },
            POp::ToTrust => {
                let n = it.len();
                Box::new(it.to_trust(n))
            },
        };
    }
    it
}

pub fn model_pipeline(x: &Series, ops: &[POp]) -> Series {
    let mut s = x.clone();
    for op in ops {
        s = match op {
            POp::VShift(n, f) => mm::shift(&s, *n as i64, *f),
            POp::Shift(n, f) => mm::shift(&s, *n as i64, Some(*f)),
            POp::VAbs | POp::Abs => mm::abs(&s),
            POp::Fill(f) => {
                let m: Vec<bool> = s.iter().map(|v| v.is_none()).collect();
                mm::fill_mask(&s, &m, Some(*f))
            },
            POp::FFill(f) => {
                let m: Vec<bool> = s.iter().map(|v| v.is_none()).collect();
                mm::ffill_mask(&s, &m, *f)
            },
            POp::Clip(lo, hi) => mm::clip(&s, *lo, *hi),
            POp::FillNeg(f) => {
                let m: Vec<bool> = s.iter().map(|v| v.map(|v| v < 0.0).unwrap_or(false)).collect();
                mm::fill_mask(&s, &m, Some(*f))
            },
            POp::ToTrust => s,
        };
    }
    s
}

pub fn check_pipeline(c: &PCase, obs: &mut Obs) -> CheckResult {
    let d: Vec<f64> = c.x.iter().map(|v| v.unwrap_or(f64::NAN)).collect();
    let len = d.len();
    let h = hint_law_fwd("pipeline", || build_pipeline(&d, &c.ops), c.pops)?;
    if h != len {
        return fail("pipeline:length-not-preserved", format!("pipeline {:?} announces {} items for {} inputs", c.ops, h, len));
    }
    collectors("pipeline", || build_pipeline(&d, &c.ops), len)?;
    // content against the reference interpreter
    let got: Vec<f64> = Iterator::collect(build_pipeline(&d, &c.ops));
    let want = model_pipeline(&c.x, &c.ops);
    for i in 0..len {
        let g = if got[i].is_nan() { None } else { Some(got[i]) };
        if g != want[i] {
            return fail("pipeline:content", format!("pipeline {:?} item {}: got {:?}, interpreter gives {:?}", c.ops, i, g, want[i]));
        }
    }
    let shifts = c.ops.iter().filter(|o| matches!(o, POp::VShift(..) | POp::Shift(..))).count();
    obs.set_nontrivial(c.ops.len() >= 3 || c.ops.iter().any(|o| matches!(o, POp::VShift(n, _) | POp::Shift(n, _) if n.unsigned_abs() as usize >= len)));
    obs.class_if(c.ops.len() >= 3, "depth>=3");
    obs.class_if(shifts >= 2, "two_shifts");
    obs.class_if(c.pops > 0, "partial_consumption");
    Ok(())
}


// ---------------------------------------------------------------------------------------------
// byte decoders for the libFuzzer targets (hand-written on arbitrary::Unstructured)

use arbitrary::Unstructured;

use crate::gen::{InT, OutT, RollCase};
use crate::model::Stat;

/// C18: bytes -> string. First byte selects the decoding: lossy UTF-8 of the rest, or the rest
/// mapped into the 26-symbol alphabet that reaches the duration scanner's states.
pub fn decode_parse(data: &[u8]) -> String {
    match data.split_first() {
        None => String::new(),
        Some((m, rest)) if m % 2 == 0 => String::from_utf8_lossy(rest).into_owned(),
        Some((_, rest)) => rest.iter().map(|b| ALPHABET[*b as usize % ALPHABET.len()]).collect(),
    }
}

/// C09: bytes -> pipeline program + consumption depth
pub fn decode_pipeline(data: &[u8]) -> PCase {
    let mut u = Unstructured::new(data);
    let len = u.int_in_range(0usize..=24).unwrap_or(0);
    let nops = u.int_in_range(1usize..=6).unwrap_or(1);
    let pops = u.int_in_range(0usize..=3).unwrap_or(0);
    let mut ops = vec![];
    for _ in 0..nops {
        let k = u.int_in_range(0u8..=8).unwrap_or(0);
        let n = u.int_in_range(-(len as i32) - 3..=len as i32 + 3).unwrap_or(0);
        let f = u.int_in_range(-9i8..=9).unwrap_or(0) as f64;
        let none = u.arbitrary::<bool>().unwrap_or(false);
        ops.push(match k {
            0 => POp::VShift(n, if none { None } else { Some(f) }),
            1 => POp::Shift(n, f),
            2 => POp::VAbs,
            3 => POp::Abs,
            4 => POp::Fill(f),
            5 => POp::FFill(if none { None } else { Some(f) }),
            6 => POp::Clip(if none { None } else { Some(f.min(0.0)) }, Some(f.max(0.0))),
            7 => POp::FillNeg(f),
            _ => POp::ToTrust,
        });
    }
    let mut x = Vec::with_capacity(len);
    for _ in 0..len {
        let b = u.arbitrary::<u8>().unwrap_or(0);
        x.push(if b % 5 == 0 { None } else { Some((b as i32 % 9 - 4) as f64) });
    }
    PCase { x, ops, pops }
}

pub const EXTREMA_STATS: [Stat; 10] = [
    Stat::Min,
    Stat::Max,
    Stat::ArgMin,
    Stat::ArgMax,
    Stat::Rank { pct: false, rev: false },
    Stat::Rank { pct: true, rev: true },
    Stat::MinMaxNorm,
    Stat::ZScore,
    Stat::Rank { pct: false, rev: true },
    Stat::Rank { pct: true, rev: false },
];

/// C03: bytes -> (alphabet-coded series with nulls, window, min_periods, statistic)
pub fn decode_extrema(data: &[u8]) -> (RollCase, Stat) {
    let mut u = Unstructured::new(data);
    let st = EXTREMA_STATS[u.int_in_range(0usize..=9).unwrap_or(0)];
    let w = u.int_in_range(1usize..=12).unwrap_or(1);
    let mp_raw = u.int_in_range(0usize..=13).unwrap_or(0);
    let alpha = u.int_in_range(2u8..=5).unwrap_or(3);
    let opt = u.arbitrary::<bool>().unwrap_or(false);
    let rest = u.take_rest();
    let x: Series = rest.iter().take(64).map(|b| if b % 7 == 0 { None } else { Some((b % alpha) as f64 - 1.0) }).collect();
    let mp = if mp_raw > w { None } else { Some(mp_raw) };
    (
        RollCase {
            x,
            w,
            mp,
            tin: if opt { InT::OptF64 } else { InT::F64 },
            tout: OutT::F64,
            class: "fuzz".into(),
            out_buf: w % 2 == 0,
            p: 0.0,
        },
        st,
    )
}

/// a violated oracle inside a fuzz target aborts the process with the signature in the message
pub fn fuzz_assert(r: CheckResult) {
    if let Err(f) = r {
        panic!("ORACLE-VIOLATION {} -- {}", f.sig, f.detail);
    }
}

// ---------------------------------------------------------------------------------------------
// C10 on the real containers (run under AddressSanitizer by the fz_kernel target)

use std::collections::VecDeque;

use crate::backends::{make_deque, strided_parent};
use crate::conv::{materialize, normalize};
use crate::rollcheck::check1;
use crate::sut;

#[derive(Clone, Debug, Serialize, Deserialize)]
pub struct KernelCase {
    pub c: RollCase,
    pub st: usize,
    pub rot: usize,
    pub step: i8,
}

pub const KERNEL_STATS: [Stat; 20] = [
    Stat::Sum,
    Stat::Mean,
    Stat::Ewm,
    Stat::Wma,
    Stat::Std,
    Stat::Var,
    Stat::Skew,
    Stat::Kurt,
    Stat::Min,
    Stat::Max,
    Stat::ArgMin,
    Stat::ArgMax,
    Stat::Rank { pct: false, rev: false },
    Stat::Rank { pct: true, rev: true },
    Stat::MinMaxNorm,
    Stat::ZScore,
    Stat::Reg,
    Stat::Tsf,
    Stat::RegSlope,
    Stat::RegResidMean,
];

pub fn decode_kernel(data: &[u8]) -> KernelCase {
    let mut u = Unstructured::new(data);
    let st = u.int_in_range(0usize..=19).unwrap_or(0);
    let w = u.int_in_range(1usize..=20).unwrap_or(1);
    let mp_raw = u.int_in_range(0usize..=21).unwrap_or(0);
    let rot = u.int_in_range(0usize..=9).unwrap_or(0);
    let step = [1i8, 2, 3, -1, -2][u.int_in_range(0usize..=4).unwrap_or(0)];
    let out_buf = u.arbitrary::<bool>().unwrap_or(false);
    let rest = u.take_rest();
    let x: Series = rest.iter().take(48).map(|b| if b % 6 == 0 { None } else { Some((*b as i32 % 17 - 8) as f64 * 0.5) }).collect();
    KernelCase {
        c: RollCase {
            x,
            w,
            mp: if mp_raw > w { None } else { Some(mp_raw) },
            tin: InT::F64,
            tout: OutT::F64,
            class: "fuzz".into(),
            out_buf,
            p: 0.0,
        },
        st,
        rot,
        step,
    }
}

/// The kernel on the real Vec / wrapped VecDeque / strided ndarray view: model agreement on Vec,
/// bit-identical results on the other two. Any out-of-bounds unchecked access is the sanitizer's
/// business; this function supplies the semantic oracle.
pub fn check_kernel(k: &KernelCase, obs: &mut Obs) -> CheckResult {
    let stat = KERNEL_STATS[k.st % KERNEL_STATS.len()];
    let c = &k.c;
    check1(c, stat, true, obs)?;
    let d: Vec<f64> = materialize(&c.x);
    let len = d.len();
    let reference: Vec<f64> = sut::via_vec(len, false, |buf| sut::roll_valid::<Vec<f64>, f64, Vec<f64>, f64>(&d, stat, c.w, c.mp, buf)).map_err(|e| Fail { sig: "out-path".into(), detail: e })?;
    let want = normalize(reference);
    let bits = |s: &Series| -> Vec<u64> { s.iter().map(|v| v.map(|x| x.to_bits()).unwrap_or(u64::MAX)).collect() };
    let dq: VecDeque<f64> = make_deque(&d, k.rot);
    let got: Vec<f64> = sut::via_vec(len, c.out_buf, |buf| sut::roll_valid::<VecDeque<f64>, f64, Vec<f64>, f64>(&dq, stat, c.w, c.mp, buf)).map_err(|e| Fail { sig: "out-path".into(), detail: e })?;
    if bits(&normalize(got)) != bits(&want) {
        return fail(format!("real-containers:ts_v{}:vecdeque", stat.name()), format!("VecDeque (rot {}) result differs from Vec for {:?}", k.rot, c));
    }
    let parent = strided_parent(&d, k.step as isize, -7.0);
    let view = parent.slice(tevec::export::ndarray::s![..;k.step as isize]);
    let got: Array1<f64> = {
        let r: Option<Array1<f64>> = sut::roll_valid::<_, f64, Array1<f64>, f64>(&view, stat, c.w, c.mp, None);
        r.ok_or_else(|| Fail { sig: "out-path".into(), detail: "nothing returned".into() })?
    };
    if bits(&normalize(got.to_vec())) != bits(&want) {
        return fail(format!("real-containers:ts_v{}:ndview", stat.name()), format!("ndarray view (step {}) result differs from Vec for {:?}", k.step, c));
    }
    obs.set_nontrivial(len > c.w && c.x.iter().any(|v| v.is_none()));
    Ok(())
}
