//! Conversions between the logical series (`Vec<Option<f64>>`, None = null) and concrete element
//! types. No tevec imports here.

pub trait InElem: Clone + 'static {
    fn from_logical(v: Option<f64>) -> Self;
}

impl InElem for f64 {
    fn from_logical(v: Option<f64>) -> Self {
        v.unwrap_or(f64::NAN)
    }
}
impl InElem for f32 {
    fn from_logical(v: Option<f64>) -> Self {
        v.map(|x| x as f32).unwrap_or(f32::NAN)
    }
}
impl InElem for i32 {
    fn from_logical(v: Option<f64>) -> Self {
        v.expect("i32 series cannot hold nulls") as i32
    }
}
impl InElem for i64 {
    fn from_logical(v: Option<f64>) -> Self {
        v.expect("i64 series cannot hold nulls") as i64
    }
}
impl InElem for Option<f64> {
    fn from_logical(v: Option<f64>) -> Self {
        v
    }
}
impl InElem for Option<f32> {
    fn from_logical(v: Option<f64>) -> Self {
        v.map(|x| x as f32)
    }
}
impl InElem for Option<i32> {
    fn from_logical(v: Option<f64>) -> Self {
        v.map(|x| x as i32)
    }
}
impl InElem for Option<i64> {
    fn from_logical(v: Option<f64>) -> Self {
        v.map(|x| x as i64)
    }
}

pub fn materialize<T: InElem>(x: &[Option<f64>]) -> Vec<T> {
    x.iter().map(|v| T::from_logical(*v)).collect()
}

pub trait OutElem: Clone + 'static {
    fn to_logical(&self) -> Option<f64>;
    /// bit pattern for exact comparisons (all NaNs collapse to one pattern)
    fn bits(&self) -> u64 {
        match self.to_logical() {
            None => u64::MAX,
            Some(v) => v.to_bits(),
        }
    }
}

impl OutElem for f64 {
    fn to_logical(&self) -> Option<f64> {
        if self.is_nan() { None } else { Some(*self) }
    }
}
impl OutElem for f32 {
    fn to_logical(&self) -> Option<f64> {
        if self.is_nan() { None } else { Some(*self as f64) }
    }
}
impl OutElem for i32 {
    fn to_logical(&self) -> Option<f64> {
        Some(*self as f64)
    }
}
impl OutElem for i64 {
    fn to_logical(&self) -> Option<f64> {
        Some(*self as f64)
    }
}
impl OutElem for usize {
    fn to_logical(&self) -> Option<f64> {
        Some(*self as f64)
    }
}
impl OutElem for Option<f64> {
    fn to_logical(&self) -> Option<f64> {
        // Some(NaN) is kept visible as a (non-null) NaN value
        *self
    }
}
impl OutElem for Option<f32> {
    fn to_logical(&self) -> Option<f64> {
        self.map(|x| x as f64)
    }
}
impl OutElem for Option<i32> {
    fn to_logical(&self) -> Option<f64> {
        self.map(|x| x as f64)
    }
}
impl OutElem for Option<i64> {
    fn to_logical(&self) -> Option<f64> {
        self.map(|x| x as f64)
    }
}

pub fn normalize<U: OutElem>(v: impl IntoIterator<Item = U>) -> Vec<Option<f64>> {
    v.into_iter().map(|u| u.to_logical()).collect()
}
