//! Thin adapters that call the system under test. This is the only library module that imports
//! the tevec prelude (whose `AggBasic` shadows Iterator methods).

use tevec::prelude::*;

use crate::model::{Stat, Stat2};

/// Null-aware single-series rolling functions (`ts_v*`), generic over view, element, output.
pub fn roll_valid<V, T, O, U>(v: &V, stat: Stat, w: usize, mp: Option<usize>, out: Option<O::UninitRefMut<'_>>) -> Option<O>
where
    V: Vec1View<T>,
    T: IsNone,
    T::Inner: Number,
    O: Vec1<U>,
    U: Clone,
    f64: Cast<U>,
    Option<T::Inner>: Cast<U>,
{
    match stat {
        Stat::Sum => v.ts_vsum_to::<O, U>(w, mp, out),
        Stat::Mean => v.ts_vmean_to::<O, U>(w, mp, out),
        Stat::Ewm => v.ts_vewm_to::<O, U>(w, mp, out),
        Stat::Wma => v.ts_vwma_to::<O, U>(w, mp, out),
        Stat::Std => v.ts_vstd_to::<O, U>(w, mp, out),
        Stat::Var => v.ts_vvar_to::<O, U>(w, mp, out),
        Stat::Skew => v.ts_vskew_to::<O, U>(w, mp, out),
        Stat::Kurt => v.ts_vkurt_to::<O, U>(w, mp, out),
        Stat::Min => v.ts_vmin_to::<O, U>(w, mp, out),
        Stat::Max => v.ts_vmax_to::<O, U>(w, mp, out),
        Stat::ArgMin => v.ts_vargmin_to::<O, U>(w, mp, out),
        Stat::ArgMax => v.ts_vargmax_to::<O, U>(w, mp, out),
        Stat::Rank { pct, rev } => v.ts_vrank_to::<O, U>(w, mp, pct, rev, out),
        Stat::MinMaxNorm => v.ts_vminmaxnorm_to::<O, U>(w, mp, out),
        Stat::ZScore => v.ts_vzscore_to::<O, U>(w, mp, out),
        Stat::Reg => v.ts_vreg_to::<O, U>(w, mp, out),
        Stat::Tsf => v.ts_vtsf_to::<O, U>(w, mp, out),
        Stat::RegSlope => v.ts_vreg_slope_to::<O, U>(w, mp, out),
        Stat::RegIntercept => v.ts_vreg_intercept_to::<O, U>(w, mp, out),
        Stat::RegResidMean => v.ts_vreg_resid_mean_to::<O, U>(w, mp, out),
        Stat::Fdiff(_) => panic!("use roll_vfdiff"),
    }
}

pub fn roll_vfdiff<V, T, O, U>(v: &V, d: f64, w: usize, mp: Option<usize>, out: Option<O::UninitRefMut<'_>>) -> Option<O>
where
    V: Vec1View<T>,
    T: IsNone,
    T::Inner: Number,
    O: Vec1<U>,
    U: Clone,
    f64: Cast<U>,
    for<'a> V::SliceOutput<'a>: TIter<T>,
{
    v.ts_vfdiff_to::<O, U>(d, w, mp, out)
}

/// Plain single-series rolling functions (`ts_sum` .. `ts_kurt`).
pub fn roll_plain<V, T, O, U>(v: &V, stat: Stat, w: usize, mp: Option<usize>, out: Option<O::UninitRefMut<'_>>) -> Option<O>
where
    V: Vec1View<T>,
    T: Number,
    O: Vec1<U>,
    U: Clone,
    f64: Cast<U>,
{
    match stat {
        Stat::Sum => v.ts_sum_to::<O, U>(w, mp, out),
        Stat::Mean => v.ts_mean_to::<O, U>(w, mp, out),
        Stat::Ewm => v.ts_ewm_to::<O, U>(w, mp, out),
        Stat::Wma => v.ts_wma_to::<O, U>(w, mp, out),
        Stat::Std => v.ts_std_to::<O, U>(w, mp, out),
        Stat::Var => v.ts_var_to::<O, U>(w, mp, out),
        Stat::Skew => v.ts_skew_to::<O, U>(w, mp, out),
        Stat::Kurt => v.ts_kurt_to::<O, U>(w, mp, out),
        _ => panic!("not a plain rolling statistic"),
    }
}

pub fn roll_fdiff<V, T, O, U>(v: &V, d: f64, w: usize, out: Option<O::UninitRefMut<'_>>) -> Option<O>
where
    V: Vec1View<T>,
    T: Cast<f64> + Clone,
    O: Vec1<U>,
    U: Clone,
    f64: Cast<U>,
    for<'a> V::SliceOutput<'a>: TIter<T>,
{
    v.ts_fdiff_to::<O, U>(d, w, out)
}

/// Two-series rolling functions (all except `ts_vregx_all`).
pub fn roll2<V, T, V2, T2, O, U>(v: &V, other: &V2, stat: Stat2, w: usize, mp: Option<usize>, out: Option<O::UninitRefMut<'_>>) -> Option<O>
where
    V: Vec1View<T>,
    T: IsNone,
    T::Inner: Number,
    V2: Vec1View<T2>,
    T2: IsNone,
    T2::Inner: Number,
    O: Vec1<U>,
    U: Clone,
    f64: Cast<U>,
{
    match stat {
        Stat2::Cov => v.ts_vcov_to::<O, U, V2, T2>(other, w, mp, out),
        Stat2::Corr => v.ts_vcorr_to::<O, U, V2, T2>(other, w, mp, out),
        Stat2::RegxAlpha => v.ts_vregx_alpha_to::<O, U, V2, T2>(other, w, mp, out),
        Stat2::RegxBeta => v.ts_vregx_beta_to::<O, U, V2, T2>(other, w, mp, out),
        Stat2::RegxResidMean => v.ts_vregx_resid_mean_to::<O, U, V2, T2>(other, w, mp, out),
        Stat2::RegxResidStd => v.ts_vregx_resid_std_to::<O, U, V2, T2>(other, w, mp, out),
        Stat2::RegxResidSkew => v.ts_vregx_resid_skew_to::<O, U, V2, T2>(other, w, mp, out),
        _ => panic!("use roll2_all"),
    }
}

pub fn roll2_all<V, T, V2, T2, O, U>(v: &V, other: &V2, w: usize, mp: Option<usize>) -> O
where
    V: Vec1View<T>,
    T: IsNone,
    T::Inner: Number,
    V2: Vec1View<T2>,
    T2: IsNone,
    T2::Inner: Number,
    O: Vec1<(U, U, U)>,
    U: Clone,
    f64: Cast<U>,
{
    v.ts_vregx_all::<O, U, V2, T2>(other, w, mp)
}

/// Run `f` either returning a fresh `Vec` or writing into a caller-supplied uninitialised `Vec`
/// buffer of the input's length.
pub fn via_vec<U: Clone>(len: usize, out_buf: bool, f: impl FnOnce(Option<&mut [std::mem::MaybeUninit<U>]>) -> Option<Vec<U>>) -> Result<Vec<U>, String> {
    if out_buf {
        let mut buf = <Vec<U> as Vec1<U>>::uninit(len);
        let r = f(Some(<Vec<U> as Vec1<U>>::uninit_ref_mut(&mut buf)));
        if r.is_some() {
            return Err("out-path: a value was returned although a buffer was supplied".into());
        }
        Ok(unsafe { buf.assume_init() })
    } else {
        match f(None) {
            Some(v) => Ok(v),
            None => Err("out-path: nothing returned although no buffer was supplied".into()),
        }
    }
}
