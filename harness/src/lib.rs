pub mod backends;
pub mod conv;
pub mod engine;
pub mod gen;
pub mod matrix;
pub mod model;
pub mod rollcheck;
pub mod sut;
