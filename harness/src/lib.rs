pub mod conv;
pub mod engine;
pub mod gen;
pub mod model;
pub mod rollcheck;
pub mod sut;
