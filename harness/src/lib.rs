pub mod backends;
pub mod chk;
pub mod civil;
pub mod conv;
pub mod engine;
pub mod fuzzable;
pub mod gen;
pub mod matrix;
pub mod model;
pub mod model_map;
pub mod rollcheck;
pub mod sut;
pub mod sut_agg;
pub mod sut_map;

