//! Instrumented containers built on the library's public backend traits.
//!
//! * `ChkView<T>`: an input view that logs every unchecked element / slice access and refuses to
//!   touch memory for an out-of-range one (it records a violation and returns a default value).
//!   It overrides the five rolling drivers exactly as the `Vec` backend does, so that the real
//!   `*_to` kernels of `Vec1View` (and everything built on them) run against it.
//! * `ChkOut<T>`: an output container whose uninitialised form logs every write; exposing it as
//!   initialised requires every slot to have been written exactly once.
//!
//! The log lives in a thread-local so that `O::uninit(len)` (a static function) can reach it.

use std::cell::RefCell;

use tevec::prelude::{GetLen, TIter, TIterator, TResult, UninitRefMut, UninitVec, Vec1, Vec1View};

#[derive(Default, Debug, Clone)]
pub struct ChkLog {
    pub ugets: u64,
    pub uslices: u64,
    pub usets: u64,
    pub buffers_exposed: u64,
    pub violations: Vec<String>,
}

thread_local! {
    static LOG: RefCell<ChkLog> = RefCell::new(ChkLog::default());
}

pub fn reset_log() {
    LOG.with(|l| *l.borrow_mut() = ChkLog::default());
}

pub fn take_log() -> ChkLog {
    LOG.with(|l| std::mem::take(&mut *l.borrow_mut()))
}

pub fn peek_log() -> ChkLog {
    LOG.with(|l| l.borrow().clone())
}

fn violation(msg: String) {
    LOG.with(|l| {
        let mut l = l.borrow_mut();
        if l.violations.len() < 8 {
            l.violations.push(msg);
        }
    });
}

// ---------------------------------------------------------------------------------------------

#[derive(Clone, Debug)]
pub struct ChkView<T> {
    pub data: Vec<T>,
    pub default: T,
    pub name: &'static str,
}

impl<T: Clone> ChkView<T> {
    pub fn new(data: Vec<T>, default: T, name: &'static str) -> Self {
        ChkView { data, default, name }
    }
}

impl<T> GetLen for ChkView<T> {
    #[inline]
    fn len(&self) -> usize {
        self.data.len()
    }
}

impl<T: Clone> TIter<T> for ChkView<T> {
    #[inline]
    fn titer(&self) -> impl TIterator<Item = T> + '_ {
        self.data.iter().cloned()
    }
}

impl<T: Clone> Vec1View<T> for ChkView<T> {
    type SliceOutput<'a>
        = &'a [T]
    where
        Self: 'a;

    fn get_backend_name(&self) -> &'static str {
        "chkview"
    }

    fn slice<'a>(&'a self, start: usize, end: usize) -> TResult<Self::SliceOutput<'a>>
    where
        T: 'a,
    {
        LOG.with(|l| l.borrow_mut().uslices += 1);
        let len = self.data.len();
        if start > end || end > len {
            violation(format!("{}: slice({}, {}) outside 0 <= start <= end <= {}", self.name, start, end, len));
            let e = end.min(len);
            return Ok(&self.data[start.min(e)..e]);
        }
        Ok(&self.data[start..end])
    }

    unsafe fn uslice<'a>(&'a self, start: usize, end: usize) -> TResult<Self::SliceOutput<'a>>
    where
        T: 'a,
    {
        LOG.with(|l| l.borrow_mut().uslices += 1);
        let len = self.data.len();
        if start > end || end > len {
            violation(format!("{}: uslice({}, {}) outside 0 <= start <= end <= {}", self.name, start, end, len));
            let e = end.min(len);
            return Ok(&self.data[start.min(e)..e]);
        }
        Ok(&self.data[start..end])
    }

    unsafe fn uget(&self, index: usize) -> T {
        LOG.with(|l| l.borrow_mut().ugets += 1);
        if index >= self.data.len() {
            violation(format!("{}: uget({}) with len {}", self.name, index, self.data.len()));
            return self.default.clone();
        }
        self.data[index].clone()
    }

    // the same delegation as the Vec backend, so that the `*_to` kernels are exercised

    fn rolling_custom<'a, O: Vec1<OT>, OT: Clone, F>(&'a self, window: usize, f: F, out: Option<O::UninitRefMut<'_>>) -> Option<O>
    where
        F: FnMut(Self::SliceOutput<'a>) -> OT,
        T: 'a,
    {
        let len = self.len();
        if let Some(out) = out {
            self.rolling_custom_to::<O, _, _>(window, f, out);
            None
        } else {
            let mut out = O::uninit(len);
            self.rolling_custom_to::<O, _, _>(window, f, O::uninit_ref_mut(&mut out));
            Some(unsafe { out.assume_init() })
        }
    }

    fn rolling_apply<O: Vec1<OT>, OT, F>(&self, window: usize, f: F, out: Option<O::UninitRefMut<'_>>) -> Option<O>
    where
        F: FnMut(Option<T>, T) -> OT,
    {
        let len = self.len();
        if let Some(out) = out {
            self.rolling_apply_to::<O, _, _>(window, f, out);
            None
        } else {
            let mut out = O::uninit(len);
            self.rolling_apply_to::<O, _, _>(window, f, O::uninit_ref_mut(&mut out));
            Some(unsafe { out.assume_init() })
        }
    }

    fn rolling2_apply<O: Vec1<OT>, OT, V2: Vec1View<T2>, T2, F>(&self, other: &V2, window: usize, f: F, out: Option<O::UninitRefMut<'_>>) -> Option<O>
    where
        F: FnMut(Option<(T, T2)>, (T, T2)) -> OT,
    {
        let len = self.len();
        if let Some(out) = out {
            self.rolling2_apply_to::<O, _, _, _, _>(other, window, f, out);
            None
        } else {
            let mut out = O::uninit(len);
            self.rolling2_apply_to::<O, _, _, _, _>(other, window, f, O::uninit_ref_mut(&mut out));
            Some(unsafe { out.assume_init() })
        }
    }

    fn rolling_apply_idx<O: Vec1<OT>, OT, F>(&self, window: usize, f: F, out: Option<O::UninitRefMut<'_>>) -> Option<O>
    where
        F: FnMut(Option<usize>, usize, T) -> OT,
    {
        let len = self.len();
        if let Some(out) = out {
            self.rolling_apply_idx_to::<O, _, _>(window, f, out);
            None
        } else {
            let mut out = O::uninit(len);
            self.rolling_apply_idx_to::<O, _, _>(window, f, O::uninit_ref_mut(&mut out));
            Some(unsafe { out.assume_init() })
        }
    }

    fn rolling2_apply_idx<O: Vec1<OT>, OT, V2: Vec1View<T2>, T2, F>(&self, other: &V2, window: usize, f: F, out: Option<O::UninitRefMut<'_>>) -> Option<O>
    where
        F: FnMut(Option<usize>, usize, (T, T2)) -> OT,
    {
        let len = self.len();
        if let Some(out) = out {
            self.rolling2_apply_idx_to::<O, _, _, _, _>(other, window, f, out);
            None
        } else {
            let mut out = O::uninit(len);
            self.rolling2_apply_idx_to::<O, _, _, _, _>(other, window, f, O::uninit_ref_mut(&mut out));
            Some(unsafe { out.assume_init() })
        }
    }
}

// ---------------------------------------------------------------------------------------------

/// Output container. `T: Default` supplies the value shown for a slot that was never written
/// (after the violation has been recorded), so no uninitialised memory is ever read.
#[derive(Clone, Debug, PartialEq)]
pub struct ChkOut<T>(pub Vec<T>);

pub struct ChkUninit<T> {
    slots: Vec<Option<T>>,
}

pub struct ChkRefMut<'a, T> {
    slots: &'a mut Vec<Option<T>>,
}

impl<T> GetLen for ChkOut<T> {
    fn len(&self) -> usize {
        self.0.len()
    }
}

impl<T: Clone> TIter<T> for ChkOut<T> {
    fn titer(&self) -> impl TIterator<Item = T> + '_ {
        self.0.iter().cloned()
    }
}

impl<T: Clone> Vec1View<T> for ChkOut<T> {
    type SliceOutput<'a>
        = &'a [T]
    where
        Self: 'a;

    fn get_backend_name(&self) -> &'static str {
        "chkout"
    }

    unsafe fn uget(&self, index: usize) -> T {
        self.0[index].clone()
    }
}

impl<T: Clone + Default> Vec1<T> for ChkOut<T> {
    type Uninit = ChkUninit<T>;
    type UninitRefMut<'a>
        = ChkRefMut<'a, T>
    where
        T: 'a;

    fn collect_from_iter<I: Iterator<Item = T>>(iter: I) -> Self {
        ChkOut(iter.collect())
    }

    /// a trusted-length source is collected safely, and what it announced is compared with what it
    /// yielded (the real containers allocate the announced length and expose it as initialised)
    fn collect_from_trusted<I: tevec::prelude::TrustedLen<Item = T>>(iter: I) -> Self {
        let hint = iter.size_hint();
        let v: Vec<T> = iter.collect();
        if hint.0 != v.len() || hint.1 != Some(v.len()) {
            violation(format!("trusted source announced {:?} but yielded {} items", hint, v.len()));
        }
        ChkOut(v)
    }

    fn uninit(len: usize) -> Self::Uninit {
        ChkUninit {
            slots: (0..len).map(|_| None).collect(),
        }
    }

    fn uninit_ref_mut(uninit_vec: &mut Self::Uninit) -> Self::UninitRefMut<'_> {
        ChkRefMut {
            slots: &mut uninit_vec.slots,
        }
    }
}

fn do_set<T>(slots: &mut [Option<T>], idx: usize, v: T) {
    LOG.with(|l| l.borrow_mut().usets += 1);
    let len = slots.len();
    if idx >= len {
        violation(format!("output: uset({}) with len {}", idx, len));
        return;
    }
    if slots[idx].is_some() {
        violation(format!("output: slot {} written twice", idx));
    }
    slots[idx] = Some(v);
}

impl<T> GetLen for ChkUninit<T> {
    fn len(&self) -> usize {
        self.slots.len()
    }
}

impl<T: Clone + Default> UninitVec<T> for ChkUninit<T> {
    type Vec = ChkOut<T>;

    unsafe fn assume_init(self) -> Self::Vec {
        LOG.with(|l| l.borrow_mut().buffers_exposed += 1);
        let missing: Vec<usize> = self.slots.iter().enumerate().filter(|(_, s)| s.is_none()).map(|(i, _)| i).collect();
        if !missing.is_empty() {
            violation(format!("output: {} of {} slots exposed as initialised without having been written (first: {})", missing.len(), self.slots.len(), missing[0]));
        }
        ChkOut(self.slots.into_iter().map(|s| s.unwrap_or_default()).collect())
    }

    unsafe fn uset(&mut self, idx: usize, v: T) {
        do_set(&mut self.slots, idx, v)
    }
}

impl<T> ChkUninit<T> {
    /// which slots have been written (for caller-supplied buffers)
    pub fn written(&self) -> Vec<bool> {
        self.slots.iter().map(|s| s.is_some()).collect()
    }
    pub fn values(&self) -> Vec<Option<&T>> {
        self.slots.iter().map(|s| s.as_ref()).collect()
    }
}

impl<T> GetLen for ChkRefMut<'_, T> {
    fn len(&self) -> usize {
        self.slots.len()
    }
}

impl<T> UninitRefMut<T> for ChkRefMut<'_, T> {
    unsafe fn uset(&mut self, idx: usize, v: T) {
        do_set(self.slots, idx, v)
    }
}
