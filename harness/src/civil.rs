//! Independent proleptic-Gregorian calendar arithmetic (Howard Hinnant's algorithms). No tevec /
//! chrono here.

/// days since 1970-01-01 -> (year, month 1..=12, day 1..=31)
pub fn civil_from_days(z: i64) -> (i64, u32, u32) {
    let z = z + 719468;
    let era = z.div_euclid(146097);
    let doe = z.rem_euclid(146097); // [0, 146096]
    let yoe = (doe - doe / 1460 + doe / 36524 - doe / 146096) / 365; // [0, 399]
    let y = yoe + era * 400;
    let doy = doe - (365 * yoe + yoe / 4 - yoe / 100); // [0, 365]
    let mp = (5 * doy + 2) / 153; // [0, 11]
    let d = (doy - (153 * mp + 2) / 5 + 1) as u32;
    let m = if mp < 10 { mp + 3 } else { mp - 9 } as u32;
    (if m <= 2 { y + 1 } else { y }, m, d)
}

pub fn days_from_civil(y: i64, m: u32, d: u32) -> i64 {
    let y = if m <= 2 { y - 1 } else { y };
    let era = y.div_euclid(400);
    let yoe = y.rem_euclid(400);
    let mp = if m > 2 { m - 3 } else { m + 9 } as i64;
    let doy = (153 * mp + 2) / 5 + d as i64 - 1;
    let doe = yoe * 365 + yoe / 4 - yoe / 100 + doy;
    era * 146097 + doe - 719468
}

pub fn is_leap(y: i64) -> bool {
    (y % 4 == 0 && y % 100 != 0) || y % 400 == 0
}

pub fn days_in_month(y: i64, m: u32) -> u32 {
    match m {
        1 | 3 | 5 | 7 | 8 | 10 | 12 => 31,
        4 | 6 | 9 | 11 => 30,
        _ => {
            if is_leap(y) {
                29
            } else {
                28
            }
        },
    }
}

/// add k calendar months with end-of-month clamping
pub fn add_months(y: i64, m: u32, d: u32, k: i64) -> (i64, u32, u32) {
    let idx = y * 12 + (m as i64 - 1) + k;
    let ny = idx.div_euclid(12);
    let nm = idx.rem_euclid(12) as u32 + 1;
    (ny, nm, d.min(days_in_month(ny, nm)))
}

/// seconds since the epoch -> (y, m, d, hh, mm, ss)
pub fn fields_from_secs(secs: i64) -> (i64, u32, u32, u32, u32, u32) {
    let days = secs.div_euclid(86400);
    let sod = secs.rem_euclid(86400);
    let (y, m, d) = civil_from_days(days);
    (y, m, d, (sod / 3600) as u32, ((sod % 3600) / 60) as u32, (sod % 60) as u32)
}

pub fn secs_from_fields(y: i64, m: u32, d: u32, hh: u32, mm: u32, ss: u32) -> i64 {
    days_from_civil(y, m, d) * 86400 + hh as i64 * 3600 + mm as i64 * 60 + ss as i64
}
