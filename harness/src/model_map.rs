//! Positional reference interpreter for the element-wise mapping operations (C13), binning and
//! run de-duplication (C14). No tevec imports.

use crate::gen::Series;

pub fn shift(x: &Series, n: i64, fill: Option<f64>) -> Series {
    let len = x.len() as i64;
    (0..len)
        .map(|i| {
            let j = i - n;
            if j >= 0 && j < len {
                x[j as usize]
            } else {
                fill
            }
        })
        .collect()
}

pub fn diff(x: &Series, n: i64, fill: Option<f64>) -> Series {
    let len = x.len() as i64;
    (0..len)
        .map(|i| {
            let j = i - n;
            if j >= 0 && j < len {
                match (x[i as usize], x[j as usize]) {
                    (Some(a), Some(b)) => Some(a - b),
                    _ => None,
                }
            } else {
                fill
            }
        })
        .collect()
}

pub fn pct_change(x: &Series, n: i64) -> Series {
    let len = x.len() as i64;
    (0..len)
        .map(|i| {
            let j = i - n;
            if j >= 0 && j < len {
                match (x[i as usize], x[j as usize]) {
                    (Some(a), Some(b)) if b != 0.0 => Some(a / b - 1.0),
                    _ => None,
                }
            } else {
                None
            }
        })
        .collect()
}

/// forward fill of masked elements with the nearest earlier non-masked element
pub fn ffill_mask(x: &Series, masked: &[bool], default: Option<f64>) -> Series {
    let mut last: Option<Option<f64>> = None;
    x.iter()
        .zip(masked.iter())
        .map(|(v, m)| {
            if *m {
                match last {
                    Some(l) => l,
                    None => default,
                }
            } else {
                last = Some(*v);
                *v
            }
        })
        .collect()
}

pub fn bfill_mask(x: &Series, masked: &[bool], default: Option<f64>) -> Series {
    let rx: Series = x.iter().rev().cloned().collect();
    let rm: Vec<bool> = masked.iter().rev().cloned().collect();
    let mut r = ffill_mask(&rx, &rm, default);
    r.reverse();
    r
}

pub fn fill_mask(x: &Series, masked: &[bool], value: Option<f64>) -> Series {
    x.iter().zip(masked.iter()).map(|(v, m)| if *m { value } else { *v }).collect()
}

pub fn clip(x: &Series, lo: Option<f64>, hi: Option<f64>) -> Series {
    x.iter()
        .map(|v| {
            v.map(|v| {
                let mut r = v;
                if let Some(l) = lo {
                    if r < l {
                        r = l;
                    }
                }
                if let Some(h) = hi {
                    if r > h {
                        r = h;
                    }
                }
                r
            })
        })
        .collect()
}

pub fn abs(x: &Series) -> Series {
    x.iter().map(|v| v.map(|v| v.abs())).collect()
}

// ---------------------------------------------------------------------------------------------
// C14

/// label index of the unique interval containing `v` given ascending `edges` (intervals are
/// consecutive pairs); with `add_bounds` the outer intervals are unbounded. None = no interval.
pub fn cut_index(v: f64, edges: &[f64], right: bool, add_bounds: bool) -> Option<usize> {
    if add_bounds {
        // intervals: (-inf, e0], (e0, e1], ..., (e_last, +inf)   [right-closed]
        //            (-inf, e0), [e0, e1), ..., [e_last, +inf)   [left-closed]
        let mut k = 0;
        for e in edges {
            let beyond = if right { v > *e } else { v >= *e };
            if beyond {
                k += 1;
            } else {
                break;
            }
        }
        Some(k)
    } else {
        for k in 0..edges.len().saturating_sub(1) {
            let (a, b) = (edges[k], edges[k + 1]);
            let inside = if right { a < v && v <= b } else { a <= v && v < b };
            if inside {
                return Some(k);
            }
        }
        None
    }
}

/// first / last index of each run of equal non-null values
pub fn unique_idx(x: &Series, last: bool) -> Vec<usize> {
    let mut out = vec![];
    let n = x.len();
    let mut i = 0;
    while i < n {
        match x[i] {
            None => i += 1,
            Some(v) => {
                let mut j = i;
                while j + 1 < n && x[j + 1] == Some(v) {
                    j += 1;
                }
                out.push(if last { j } else { i });
                i = j + 1;
            },
        }
    }
    out
}
